"""Runs Verus on a generated unit and classifies the outcome."""
import json
import os
import re
import subprocess
import time
from . import extract

VERUS = os.environ.get('VX_VERUS', 'verus')
SEMANTIC = [
    ('postcondition not satisfied', 'post'),
    ('precondition not satisfied', 'pre'),
    ('precondition not met', 'pre'),
    ('possible arithmetic', 'overflow'),
    ('unable to prove post-condition of closure', 'post'),
    ('unable to prove pre-condition', 'pre'),
    ('assertion failed', 'assert'),
    ('possible arithmetic underflow/overflow', 'overflow'),
    ('possible division by zero', 'divzero'),
    ('possible bit shift underflow/overflow', 'shift'),
    ('invariant not satisfied before loop', 'inv_entry'),
    ('invariant not satisfied at end of loop body', 'inv_step'),
    ('loop invariant not', 'inv'),
    ('decreases not satisfied', 'decreases'),
    ('could not prove termination', 'decreases'),
    ('index out of bounds', 'index'),
    ('unreachable', 'unreachable'),
    ('constructed value may fail to meet its declared type invariant', 'typeinv'),
    ('cannot show invariant holds', 'inv'),
]
RESOURCE = ['rlimit', 'Resource limit', 'resource limit', 'timed out', 'timeout']


def classify_message(msg):
    for pat, kind in SEMANTIC:
        if pat in msg:
            return kind
    return None


def scan_assumptions(text):
    """Mechanical scan of the generated file for everything that is assumed rather than proved."""
    m = extract.L.mask(text)
    found = []
    for mm in re.finditer(r'assume_specification\s*(<[^\[]*>)?\s*\[\s*([^\]]+?)\s*\]', m):
        found.append('assume_specification ' + re.sub(r'\s+', ' ', mm.group(2)))
    for mm in re.finditer(r'#\[verifier::external_body\]\s*(?:#\[[^\]]*\]\s*)*(?:pub(?:\([^)]*\))?\s+)?(?:const\s+)?(?:proof\s+|broadcast\s+)*(fn|struct|enum)\s+(\w+)', m):
        found.append('external_body %s %s' % (mm.group(1), mm.group(2)))
    for mm in re.finditer(r'#\[verifier::external_type_specification\]', m):
        found.append('external_type_specification')
    for mm in re.finditer(r'\buninterp\s+spec\s+fn\s+(\w+)', m):
        found.append('uninterp spec fn ' + mm.group(1))
    for mm in re.finditer(r'\badmit\s*\(\s*\)', m):
        ctx = m[:mm.start()]
        fnm = re.findall(r'\bfn\s+(\w+)', ctx)
        found.append('admit() in ' + (fnm[-1] if fnm else '?'))
    for mm in re.finditer(r'\bassume\s*\(', m):
        ctx = m[:mm.start()]
        fnm = re.findall(r'\bfn\s+(\w+)', ctx)
        found.append('assume(..) in ' + (fnm[-1] if fnm else '?'))
    for mm in re.finditer(r'#\[verifier::external\]', m):
        found.append('verifier::external item')
    return found


def _fn_of_line(fns, line):
    for f in fns:
        if f['gen_start'] <= line <= f['body'][1]:
            region = 'body' if line >= f['body'][0] else ('contract' if line >= f['contract'][0] else 'header')
            return f, region
    return None, None


def run_verus(path, workdir, rlimit=None, extra=None, timeout=900):
    cmd = [VERUS, os.path.basename(path), '--output-json', '--time', '--multiple-errors', '50', '--triggers-mode', 'silent',
           '--error-format=json', '--num-threads', os.environ.get('VX_THREADS', '8')]
    if rlimit:
        cmd += ['--rlimit', str(rlimit)]
    if extra:
        cmd += extra
    t0 = time.time()
    try:
        p = subprocess.run(cmd, cwd=workdir, capture_output=True, text=True, timeout=timeout)
        out, err, rc = p.stdout, p.stderr, p.returncode
    except subprocess.TimeoutExpired as e:
        out, err, rc = (e.stdout or ''), (e.stderr or '') + '\nTIMEOUT', 124
        if isinstance(out, bytes):
            out = out.decode('utf-8', 'replace')
        if isinstance(err, bytes):
            err = err.decode('utf-8', 'replace')
    return dict(cmd=' '.join(cmd), stdout=out, stderr=err, rc=rc, wall=time.time() - t0)


def parse_verus(res, fns, gen_lines=None):
    """Returns dict(decided, failures, undecided_reasons, verified_count, smt_times)."""
    diags = []
    for line in res['stderr'].split('\n'):
        line = line.strip()
        if line.startswith('{') and '"$message_type"' in line:
            try:
                diags.append(json.loads(line))
            except ValueError:
                pass
    summary = None
    try:
        summary = json.loads(res['stdout'])
    except ValueError:
        pass
    failures, undecided = [], []
    if res['rc'] == 124:
        undecided.append('verus timed out')
    for d in diags:
        if d.get('level') != 'error':
            continue
        msg = d.get('message', '')
        if msg.startswith('aborting due to'):
            continue
        kind = classify_message(msg)
        spans = d.get('spans', [])
        # spans into other files (definition sites of std macros such as matches!) carry line numbers that mean nothing
        # in the generated file: follow them to their expansion site, or drop them
        def _own(sp, depth=0):
            if sp.get('file_name', '').endswith('.rs') and not os.path.isabs(sp.get('file_name', '')):
                return sp
            ex = (sp.get('expansion') or {}).get('span')
            return _own(ex, depth + 1) if ex and depth < 6 else None
        own = [x for x in (_own(sp) for sp in spans) if x]
        if own:
            spans = own
        prim = [s for s in spans if s.get('is_primary')]
        lines = [(s['line_start'], s.get('label') or '', s.get('is_primary')) for s in spans]
        if kind is None:
            if any(r in msg for r in RESOURCE):
                f, _ = _fn_of_line(fns, prim[0]['line_start']) if prim else (None, None)
                undecided.append('resource limit in %s: %s' % (f['label'] if f else '?', msg))
            else:
                undecided.append('verus error (not a proof failure): %s @ line %s' % (msg, prim[0]['line_start'] if prim else '?'))
            continue
        # owner function: prefer a span inside a body; fall back to a contract span
        owner, clause = None, None
        for ln, label, isprim in lines:
            f, region = _fn_of_line(fns, ln)
            if f and region == 'body':
                owner = f
                break
        callee = None
        for ln, label, isprim in lines:
            f, region = _fn_of_line(fns, ln)
            if f and region in ('contract', 'header'):
                if kind == 'post':
                    if owner is None:
                        owner = f
                    if f is owner:
                        clause = ln - f['contract'][0] + 1
                elif kind == 'pre':
                    callee = (f['label'], ln - f['contract'][0] + 1)
        if kind == 'post' and owner is not None and clause is None:
            # header-level failure (e.g. ensures on the same line as header)
            clause = 0
        if owner is None:
            undecided.append('failed obligation outside any function under contract: %s @ %s' % (msg, lines))
            continue
        if kind == 'post':
            name = 'post#L%d' % clause
        elif kind == 'pre':
            if callee:
                name = 'pre(%s)#L%d' % callee
            elif gen_lines is not None and any('failed precondition' in (lab or '') for _, lab, _ in lines):
                ln0 = [ln for ln, lab, _ in lines if 'failed precondition' in (lab or '')][0]
                fnname = '?'
                for k in range(min(ln0, len(gen_lines)) - 1, max(0, ln0 - 40), -1):
                    mm = re.search(r'\bfn\s+(\w+)', gen_lines[k])
                    if mm:
                        fnname = mm.group(1); break
                    mm = re.search(r'assume_specification.*\[\s*([^\]]+?)\s*\]', gen_lines[k])
                    if mm:
                        fnname = mm.group(1); break
                name = 'pre(stub %s)' % fnname
            else:
                txt = ''
                if prim and prim[0].get('text'):
                    t = prim[0]['text'][0]
                    txt = t['text'][t['highlight_start'] - 1:t['highlight_end'] - 1]
                name = 'pre(%s)' % re.sub(r'\s+', '', txt)[:60]
        else:
            name = kind
        only_props = None
        if kind == 'post' and clause and gen_lines is not None:
            # a postcondition clause may be tagged `// [only: C16]`: it then counts for those properties only
            k = owner['contract'][0] + clause - 2
            if 0 <= k < len(gen_lines):
                mm = re.search(r'//\s*\[only:\s*([A-Z0-9, ]+)\]', gen_lines[k])
                if mm:
                    only_props = [x.strip() for x in mm.group(1).split(',') if x.strip()]
        failures.append(dict(fn=owner['label'], props=owner['props'], only_props=only_props, kind=kind, obligation=name, message=msg,
                             gen_line=prim[0]['line_start'] if prim else None,
                             src=owner['file'] + ':' + str(owner['src_line']),
                             rendered=d.get('rendered', '')))
    verified_count = None
    smt = {}
    if summary is None:
        if not failures and not undecided:
            undecided.append('verus produced no JSON summary (rc=%s): %s' % (res['rc'], res['stderr'][-2000:]))
    else:
        vr = summary.get('verification-results', {})
        verified_count = vr.get('verified')
        if vr.get('encountered-vir-error'):
            undecided.append('verus front-end (VIR) error')
        if vr.get('encountered-error') and not failures and not undecided:
            undecided.append('verus reported an error that could not be attributed: %s' % res['stderr'][-1500:])
        try:
            for mod in summary['times-ms']['smt']['smt-run-module-times']:
                for fb in mod.get('function-breakdown', []):
                    smt[fb['function']] = dict(ms=fb.get('time'), rlimit=fb.get('rlimit'), success=fb.get('success'))
        except (KeyError, TypeError):
            pass
        if not vr and not failures:
            undecided.append('verus JSON without verification-results')
    return dict(failures=failures, undecided=undecided, verified_count=verified_count, smt=smt,
                total_ms=(summary or {}).get('times-ms', {}).get('total'))


def verify_unit(repo, unit_dir, workdir, canary=True, rlimit=None):
    """Generate + verify (+ canary). Returns a result dict; never raises for expected conditions."""
    os.makedirs(workdir, exist_ok=True)
    tpl = os.path.join(unit_dir, 'unit.vrs')
    unit = os.path.basename(unit_dir.rstrip('/'))
    out = dict(unit=unit, undecided=[], failures=[], fns=[], rewrites=[], dropped={}, assumptions=[], canary={}, wall=0.0)
    t0 = time.time()
    pre_relaxed = []
    auto_items = out.setdefault('auto_items', [])
    try:
        while True:
            try:
                g, text = extract.generate(repo, tpl, relaxed=pre_relaxed, auto_items=auto_items)
                break
            except extract.Undecided as e:
                # a position-based annotation (closure / loop / ghost anchor) no longer finds its place: the function
                # changed shape.  Regenerate it without those annotations; what then fails is a `relaxed` failure
                # (a violation only together with a failing concrete witness, otherwise undecided).
                m = re.match(r'lost anchor: (?:closure|loop|ghost)\b.* fn (\S+)', str(e))
                if not m or m.group(1) in pre_relaxed or len(pre_relaxed) >= 3:
                    raise
                pre_relaxed.append(m.group(1))
                out.setdefault('undecided_original', []).append(str(e))
    except extract.Undecided as e:
        out['undecided'].append(str(e))
        out['wall'] = time.time() - t0
        return out
    except extract.L.LexError as e:
        out['undecided'].append('lexer: ' + str(e))
        out['wall'] = time.time() - t0
        return out
    path = os.path.join(workdir, unit + '.rs')
    open(path, 'w').write(text)
    open(os.path.join(workdir, unit + '.bodydiff.txt'), 'w').write('\n\n'.join(g.diffs) + '\n')
    out['generated'] = path
    out['fns'] = g.fns
    out['items'] = g.items
    out['rewrites'] = g.rewrites
    out['dropped'] = g.dropped
    out['assumptions'] = scan_assumptions(text)
    res = run_verus(path, workdir, rlimit=rlimit)
    open(os.path.join(workdir, unit + '.verus.stderr'), 'w').write(res['stderr'])
    open(os.path.join(workdir, unit + '.verus.json'), 'w').write(res['stdout'])
    out['cmd'] = res['cmd']
    pr = parse_verus(res, g.fns, text.split('\n'))
    # AUTO items: an extracted function refers to a file-level const/static of its own source file that the template
    # does not list (e.g. one introduced by the change under test): copy the item and run again (at most 4 rounds)
    for _round in range(4):
        missing = []
        for u in pr['undecided']:
            m = re.search(r'cannot find value `(\w+)` in this scope @ line (\d+)', u)
            if not m:
                continue
            ln = int(m.group(2))
            for f in g.fns:
                if f['gen_start'] <= ln <= f['body'][1]:
                    try:
                        sfm = extract.L.mask(open(os.path.join(repo, f['file']), encoding='utf-8').read())
                    except OSError:
                        break
                    for kind in ('const', 'static'):
                        if extract.L.find_item(sfm, kind, m.group(1), 0, len(sfm)) and (f['file'], kind, m.group(1)) not in auto_items:
                            missing.append((f['file'], kind, m.group(1)))
                            break
                    break
        if not missing:
            break
        auto_items.extend(sorted(set(missing)))
        try:
            g, text = extract.generate(repo, tpl, relaxed=pre_relaxed, auto_items=auto_items)
        except (extract.Undecided, extract.L.LexError):
            break
        open(path, 'w').write(text)
        out['fns'], out['items'], out['rewrites'] = g.fns, g.items, g.rewrites
        res = run_verus(path, workdir, rlimit=rlimit)
        out['cmd'] = res['cmd']
        pr = parse_verus(res, g.fns, text.split('\n'))
    # rlimit escalation: a query that ran out of resources is re-run once with five times the limit before the run is
    # called undecided (failing proofs of changed code tend to be the expensive ones)
    if pr['undecided'] and all('resource limit' in u for u in pr['undecided']):
        res_hi = run_verus(path, workdir, rlimit=(rlimit or 10) * 5)
        pr_hi = parse_verus(res_hi, g.fns, text.split('\n'))
        if not pr_hi['undecided'] or len(pr_hi['undecided']) < len(pr['undecided']):
            res, pr = res_hi, pr_hi
            out['cmd'] = res['cmd']
            out['rlimit_escalated'] = True
    out['failures'] = pr['failures']
    out['undecided'] += pr['undecided']
    out['verified_count'] = pr['verified_count']
    out['smt'] = pr['smt']
    out['verus_wall'] = res['wall']
    # Relaxed retry: compile errors inside functions whose body changed shape (position-based closure / loop / ghost
    # annotations no longer fit). Those functions are regenerated WITHOUT their annotations; whatever then fails is
    # reported as a `relaxed` failure, which bin/check turns into a violation only if a concrete witness fails too.
    out['relaxed_fns'] = list(pre_relaxed)
    if pre_relaxed:
        for f in pr['failures']:
            if f['fn'] in pre_relaxed:
                f['relaxed'] = True
    if pr['undecided'] and not pr['failures'] and not pre_relaxed:
        bad_lines = [int(x) for u in pr['undecided'] for x in re.findall(r'@ line (\d+)', u)]
        relax = sorted({f['label'] for ln in bad_lines for f in g.fns if f['gen_start'] <= ln <= f['body'][1]})
        if relax and len(relax) <= 4:
            try:
                g2, text2 = extract.generate(repo, tpl, relaxed=relax, auto_items=auto_items)
                path2 = os.path.join(workdir, unit + '_relaxed.rs')
                open(path2, 'w').write(text2)
                res2 = run_verus(path2, workdir, rlimit=rlimit)
                pr2 = parse_verus(res2, g2.fns, text2.split('\n'))
                if not pr2['undecided']:
                    for f in pr2['failures']:
                        if f['fn'] in relax:
                            f['relaxed'] = True
                    keep = [f for f in pr2['failures'] if f['fn'] in relax]
                    # adopted in both cases: the relaxed functions fail (violation only together with a failing witness),
                    # or they VERIFY without their position-based annotations (the annotations were not needed any more)
                    if True:
                        out['relaxed_fns'] = relax if keep else []
                        if not keep:
                            out['annotations_dropped_for'] = relax
                        out['undecided'] = [u for u in out['undecided'] if u not in pr['undecided']]
                        out['undecided_original'] = pr['undecided']
                        pr = pr2
                        g = g2
                        # failures outside the relaxed functions are ordinary failures of this run (e.g. open known findings)
                        out['failures'] = pr2['failures']
                        out['fns'] = g2.fns
            except (extract.Undecided, extract.L.LexError):
                pass
    failed = {f['fn'] for f in pr['failures']}
    out['verified_fns'] = [f['label'] for f in g.fns if f['label'] not in failed] if not pr['undecided'] else []
    if canary and not out['undecided']:
        try:
            gc, ctext = extract.generate(repo, tpl, canary=True, relaxed=list(out.get('relaxed_fns', [])) + list(out.get('annotations_dropped_for', [])), auto_items=auto_items)
        except extract.Undecided as e:
            out['undecided'].append('canary generation: ' + str(e))
            gc = None
        if gc is not None:
            cpath = os.path.join(workdir, unit + '_canary.rs')
            open(cpath, 'w').write(ctext)
            cres = run_verus(cpath, workdir, rlimit=rlimit)
            open(os.path.join(workdir, unit + '_canary.stderr'), 'w').write(cres['stderr'])
            cp = parse_verus(cres, gc.fns)
            cfailed = {f['fn'] for f in cp['failures']}
            expected = [f['label'] for f in gc.fns if f['label'].endswith('__canary')]
            out['canary'] = dict(expected=len(expected), failed_as_required=len([e for e in expected if e in cfailed]),
                                 vacuous=[e for e in expected if e not in cfailed], skipped=gc.canary_skipped,
                                 wall=cres['wall'])
            hard = [u for u in cp['undecided'] if 'resource limit' not in u]
            if hard:
                out['undecided'].append('canary run undecided: ' + '; '.join(hard)[:500])
            elif out['canary']['vacuous']:
                out['undecided'].append('vacuity: canary `ensures false` was PROVED for %s' % out['canary']['vacuous'])
    out['wall'] = time.time() - t0
    return out
