"""Minimal Rust lexer utilities: comment/string masking, brace matching, item location.

Only what the extractor needs.  `mask(src)` returns a string of identical length in which the
contents of comments, string/char literals are replaced by spaces (newlines kept), so that brace
matching and regex search never look inside them.  All offsets are shared between `src` and the mask.
"""
import re


class LexError(Exception):
    pass


def mask(src: str, keep_strings: bool = False) -> str:
    out = list(src)
    i, n = 0, len(src)

    def blank(a, b):
        for k in range(a, b):
            if out[k] != '\n':
                out[k] = ' '

    while i < n:
        c = src[i]
        if c == '/' and i + 1 < n and src[i + 1] == '/':
            j = src.find('\n', i)
            j = n if j < 0 else j
            blank(i, j)
            i = j
        elif c == '/' and i + 1 < n and src[i + 1] == '*':
            depth, j = 1, i + 2
            while j < n and depth:
                if src.startswith('/*', j):
                    depth += 1; j += 2
                elif src.startswith('*/', j):
                    depth -= 1; j += 2
                else:
                    j += 1
            blank(i, j)
            i = j
        elif c == '"' or (c in 'b' and src.startswith('b"', i)):
            j = i + (2 if c == 'b' else 1)
            while j < n and src[j] != '"':
                j += 2 if src[j] == '\\' else 1
            if not keep_strings:
                blank(i + (2 if c == 'b' else 1), j)
            i = j + 1
        elif (c == 'r' or src.startswith('br', i)) and re.match(r'b?r#*"', src[i:i + 40]) and (i == 0 or not (src[i - 1].isalnum() or src[i - 1] == '_')):
            m = re.match(r'b?r(#*)"', src[i:i + 40])
            hashes = m.group(1)
            start = i + m.end()
            end = src.find('"' + hashes, start)
            if end < 0:
                raise LexError('unterminated raw string')
            if not keep_strings:
                blank(start, end)
            i = end + 1 + len(hashes)
        elif c == "'":
            # char literal or lifetime
            m = re.match(r"'(\\.[^']*|[^\\'])'", src[i:i + 12])
            if m:
                if not keep_strings:
                    blank(i + 1, i + m.end() - 1)
                i += m.end()
            else:
                i += 1  # lifetime
        else:
            i += 1
    return ''.join(out)


def match_close(msk: str, open_pos: int) -> int:
    """Return the offset of the bracket closing the one at open_pos."""
    pairs = {'{': '}', '(': ')', '[': ']'}
    o = msk[open_pos]
    c = pairs[o]
    depth = 0
    for k in range(open_pos, len(msk)):
        ch = msk[k]
        if ch == o:
            depth += 1
        elif ch == c:
            depth -= 1
            if depth == 0:
                return k
    raise LexError('unbalanced %s at %d' % (o, open_pos))


def match_angle(msk: str, open_pos: int) -> int:
    depth = 0
    k = open_pos
    while k < len(msk):
        ch = msk[k]
        if ch == '<':
            depth += 1
        elif ch == '>' and msk[k - 1] not in '-=':
            depth -= 1
            if depth == 0:
                return k
        elif ch in '({[':
            k = match_close(msk, k)
        k += 1
    raise LexError('unbalanced < at %d' % open_pos)


def norm(s: str) -> str:
    s = re.sub(r'\s+', ' ', s.strip())
    s = re.sub(r'\s*([<>,:&()\[\]=+;{}|])\s*', r'\1', s)
    return s


def depth_at(msk: str, pos: int) -> int:
    d = 0
    for ch in msk[:pos]:
        if ch == '{':
            d += 1
        elif ch == '}':
            d -= 1
    return d


class Span:
    def __init__(self, start, end):
        self.start, self.end = start, end


def find_block(msk: str, kw: str, selector: str, lo: int = 0, hi: int = None):
    """Find `kw <selector> {...}` (kw = impl|mod|trait). Returns (hdr_start, open_brace, close_brace)."""
    hi = len(msk) if hi is None else hi
    want = norm(selector)
    hits = []
    for m in re.finditer(r'\b%s\b' % kw, msk[lo:hi]):
        s = lo + m.start()
        ob = msk.find('{', s)
        semi = msk.find(';', s)
        if ob < 0 or (0 <= semi < ob):
            continue
        hdr = norm(msk[s + len(kw):ob])
        # allow selector with or without leading generics / where clause
        cands = {hdr}
        hdr_nowhere = norm(re.split(r'\bwhere\b', msk[s + len(kw):ob])[0])
        cands.add(hdr_nowhere)
        if hdr_nowhere.startswith('<'):
            try:
                tmp = msk[s + len(kw):ob].lstrip()
                a = match_angle(tmp, 0)
                cands.add(norm(re.split(r'\bwhere\b', tmp[a + 1:])[0]))
            except LexError:
                pass
        if want in cands:
            hits.append((s, ob, match_close(msk, ob)))
    if not hits:
        return None
    return hits


def fn_header_start(msk: str, fn_pos: int) -> int:
    """Walk back from the `fn` keyword over qualifiers (pub, pub(crate), const, async, unsafe)."""
    k = fn_pos
    while True:
        j = k
        while j > 0 and msk[j - 1] in ' \t':
            j -= 1
        m = re.search(r'(pub\s*\([^)]*\)|pub|const|async|unsafe|default)$', msk[max(0, j - 40):j])
        if not m:
            return k
        k = j - len(m.group(0))


def find_fn(msk: str, name: str, lo: int, hi: int, want_depth: int):
    """Locate `fn name` between lo and hi at the given brace depth. Returns dict of offsets."""
    hits = []
    for m in re.finditer(r'\bfn\s+%s\b' % re.escape(name), msk[lo:hi]):
        p = lo + m.start()
        if depth_at(msk, p) - depth_at(msk, lo) != want_depth:
            continue
        hits.append((p, lo + m.end()))
    if not hits:
        return None
    out = []
    for p, name_end in hits:
        k = name_end
        while msk[k].isspace():
            k += 1
        gen = None
        if msk[k] == '<':
            a = match_angle(msk, k)
            gen = (k, a + 1)
            k = a + 1
            while msk[k].isspace():
                k += 1
        if msk[k] != '(':
            raise LexError('expected ( after fn %s' % name)
        pc = match_close(msk, k)
        params = (k, pc + 1)
        # header ends at first '{' or ';' after params
        ob = pc + 1
        while msk[ob] not in '{;':
            ob += 1
        body = None
        if msk[ob] == '{':
            body = (ob, match_close(msk, ob) + 1)
        tail = msk[pc + 1:ob]
        ret = None
        wm = re.search(r'\bwhere\b', tail)
        tail_nowhere_end = pc + 1 + (wm.start() if wm else len(tail))
        am = re.search(r'->', msk[pc + 1:tail_nowhere_end])
        if am:
            ret = (pc + 1 + am.end(), tail_nowhere_end)
        where = (pc + 1 + wm.start(), ob) if wm else None
        out.append(dict(start=fn_header_start(msk, p), fn=p, name_end=name_end, generics=gen, params=params,
                        ret=ret, where=where, hdr_end=ob, body=body))
    return out


def find_item(msk: str, kind: str, name: str, lo: int = 0, hi: int = None):
    """struct / enum / const / static / type / trait at depth relative 0 in [lo,hi)."""
    hi = len(msk) if hi is None else hi
    for m in re.finditer(r'\b%s\s+%s\b' % (kind, re.escape(name)), msk[lo:hi]):
        p = lo + m.start()
        if depth_at(msk, p) != depth_at(msk, lo):
            continue
        start = fn_header_start(msk, p)
        k = lo + m.end()
        if kind in ('const', 'static', 'type'):
            # ends at ';' at bracket depth 0
            d = 0
            while True:
                ch = msk[k]
                if ch in '({[':
                    k = match_close(msk, k)
                elif ch == ';':
                    break
                k += 1
            return (start, k + 1)
        # struct/enum/trait: first of '{', '(' or ';'
        while msk[k] not in '{(;':
            if msk[k] == '<':
                k = match_angle(msk, k)
            k += 1
        if msk[k] == ';':
            return (start, k + 1)
        if msk[k] == '{':
            return (start, match_close(msk, k) + 1)
        # tuple struct: (...) [where ...] ;
        k = match_close(msk, k)
        k = msk.find(';', k)
        return (start, k + 1)
    return None


def strip_attrs_and_comments(src: str) -> str:
    """Remove comments and #[...] attributes from an item text."""
    m = mask(src, keep_strings=True)
    m2 = mask(src)
    out = []
    i = 0
    n = len(src)
    while i < n:
        if m2[i] == '#' and re.match(r'#!?\s*\[', m2[i:i + 6]):
            ob = m2.find('[', i)
            i = match_close(m2, ob) + 1
            continue
        # comment: masked (space in m) but original non-space
        if m[i] == ' ' and src[i] != ' ':
            i += 1
            continue
        out.append(src[i])
        i += 1
    txt = ''.join(out)
    txt = '\n'.join(l.rstrip() for l in txt.split('\n'))
    txt = re.sub(r'\n\s*\n+', '\n', txt)
    return txt.strip('\n')


# ---------------------------------------------------------------------------- cfg evaluation
def _split_top(s):
    out, depth, cur = [], 0, ''
    for ch in s:
        if ch == '(':
            depth += 1
        elif ch == ')':
            depth -= 1
        if ch == ',' and depth == 0:
            out.append(cur.strip()); cur = ''
        else:
            cur += ch
    if cur.strip():
        out.append(cur.strip())
    return out


def cfg_eval(pred: str, features=()):
    """Evaluate a cfg predicate for the configuration the checks assume: the listed cargo features on,
    not(test), native (non-wasm) target.  Unknown atoms evaluate to False."""
    pred = pred.strip()
    m = re.match(r'^(all|any|not)\s*\((.*)\)$', pred, re.S)
    if m:
        parts = [cfg_eval(x, features) for x in _split_top(m.group(2))]
        if m.group(1) == 'all':
            return all(parts)
        if m.group(1) == 'any':
            return any(parts)
        return not parts[0]
    m = re.match(r'^feature\s*=\s*"([^"]*)"$', pred)
    if m:
        return m.group(1) in features
    m = re.match(r'^target_arch\s*=\s*"([^"]*)"$', pred)
    if m:
        return m.group(1) == 'x86_64'
    m = re.match(r'^target_os\s*=\s*"([^"]*)"$', pred)
    if m:
        return m.group(1) == 'linux'
    if pred in ('unix',):
        return True
    return False


def cfg_attrs_active(text_before: str, features=()):
    """text_before: source text directly preceding an item (its attributes and doc comments).
    Returns False if any #[cfg(..)] among the trailing attributes evaluates to false."""
    msk = mask(text_before, keep_strings=True)
    ok = True
    for m in re.finditer(r'#\s*\[\s*cfg\s*\(', msk):
        ob = msk.find('(', m.start())
        cb = match_close(msk, ob)
        if not cfg_eval(text_before[ob + 1:cb], features):
            ok = False
    return ok


def strip_cfg_disabled(src: str, features=()):
    """Inside an item (struct/enum body), drop fields/variants whose #[cfg(..)] is false."""
    msk = mask(src, keep_strings=True)
    out, i = [], 0
    for m in re.finditer(r'#\s*\[\s*cfg\s*\(', msk):
        if m.start() < i:
            continue
        ob = msk.find('(', m.start())
        cb = match_close(msk, ob)
        close_attr = msk.find(']', cb)
        if cfg_eval(src[ob + 1:cb], features):
            continue
        # drop from attribute start to the next ',' at depth 0 (or the closing brace of the item)
        k, depth = close_attr + 1, 0
        m2 = mask(src)
        while k < len(src):
            ch = m2[k]
            if ch in '([{<':
                depth += 1
            elif ch in ')]}' or (ch == '>' and m2[k - 1] != '-'):
                if depth == 0:
                    break
                depth -= 1
            elif ch == ',' and depth == 0:
                k += 1
                break
            k += 1
        out.append(src[i:m.start()])
        i = k
    out.append(src[i:])
    return ''.join(out)
