"""Scratch overlay of /repo, Kani kernels, concrete witness replay on the real crates."""
import fcntl
import glob
import json
import os
import re
import shutil
import subprocess
import time

OV_BASE = os.path.join(os.environ.get('TMPDIR', '/tmp'), 'verif-ov')


class Overlay:
    """A scratch copy of /repo's working tree (no target/, no .git) with every unit's in-crate Kani
    harness module and witness example attached.  One fixed path so the build caches under
    /verif/.cache stay warm; guarded by a lock; removed when released."""

    def __init__(self, repo, root):
        self.repo, self.root = repo, root
        self.path = os.path.join(OV_BASE, 'repo')
        self.lock = None

    def __enter__(self):
        os.makedirs(OV_BASE, exist_ok=True)
        os.makedirs(os.path.join(self.root, '.cache'), exist_ok=True)
        self.lock = open(os.path.join(self.root, '.cache', 'overlay.lock'), 'w')
        fcntl.flock(self.lock, fcntl.LOCK_EX)
        subprocess.run(['rsync', '-a', '--delete', '--exclude', '/target', '--exclude', '.git', self.repo.rstrip('/') + '/',
                        self.path + '/'], check=True)
        self.attach()
        return self

    def __exit__(self, *a):
        shutil.rmtree(self.path, ignore_errors=True)
        fcntl.flock(self.lock, fcntl.LOCK_UN)
        self.lock.close()

    def attach(self):
        self.attach_errors = []
        for uj in sorted(glob.glob(os.path.join(self.root, 'units', '*', 'unit.json'))):
            u = json.load(open(uj))
            ud = os.path.dirname(uj)
            name = os.path.basename(ud)
            for k, att in enumerate(u.get('kani_attach', [])):
                target = os.path.join(self.path, att['to'])
                if not os.path.isfile(target):
                    self.attach_errors.append('lost anchor: %s' % att['to'])
                    continue
                with open(target, 'a') as f:
                    f.write('\n#[cfg(kani)] #[path = "%s"] mod verif_kani_%s_%d;\n' % (os.path.join(ud, att['file']), name, k))
            for w in u.get('witness_programs', []):
                ex_dir = os.path.join(self.path, w['crate'], 'examples')
                os.makedirs(ex_dir, exist_ok=True)
                shutil.copy(os.path.join(ud, w['file']), os.path.join(ex_dir, 'verif_witness_%s.rs' % name))


def _env():
    e = dict(os.environ)
    e['CARGO_NET_OFFLINE'] = 'true'
    e.pop('RUSTUP_TOOLCHAIN', None)
    return e


def parse_kani_log(log):
    """Split a cargo-kani log into per-harness results."""
    res = {}
    parts = re.split(r'^Checking harness (\S+?)\.\.\.\s*$', log, flags=re.M)
    for i in range(1, len(parts), 2):
        name, body = parts[i], parts[i + 1]
        short = name.split('::')[-1]
        m = re.search(r'VERIFICATION:- (SUCCESSFUL|FAILED)', body)
        covers = re.search(r'\*\* (\d+) of (\d+) cover properties satisfied', body)
        checks = re.search(r'\*\* (\d+) of (\d+) failed', body)
        unwind_fail = 'unwinding assertion' in body and re.search(r'Failed Checks: unwinding assertion', body)
        failed = re.findall(r'^Failed Checks: (.*)$', body, flags=re.M)
        tm = re.search(r'Verification Time: ([0-9.]+)s', body)
        cex = re.findall(r'// (.+)\n\s*vec!\[', body)
        res[short] = dict(full=name, verdict=m.group(1) if m else None, covers=(int(covers.group(1)), int(covers.group(2))) if covers else None,
                          checks=(int(checks.group(1)), int(checks.group(2))) if checks else None,
                          failed_checks=failed, time_s=float(tm.group(1)) if tm else None, cex=cex, unwind_fail=bool(unwind_fail),
                          tail=body[-1500:])
    return res


def run_kani(repo, root, unit, kernels, work, timeout_default=600):
    out = []
    with Overlay(repo, root) as ov:
        for err in ov.attach_errors:
            pass
        by_crate = {}
        for k in kernels:
            by_crate.setdefault((k['crate'], k.get('features', '')), []).append(k)
        for (crate, feats), ks in by_crate.items():
            cmd = ['cargo', 'kani', '-p', crate, '--target-dir', os.path.join(root, '.cache', 'kani-target'),
                   '-Z', 'concrete-playback', '--concrete-playback=print', '--output-format', 'terse']
            if feats:
                cmd += ['--features', feats]
            if any(k.get('stubbing') for k in ks):
                cmd += ['-Z', 'stubbing', '-Z', 'function-contracts']
            for k in ks:
                cmd += ['--harness', k['harness']]
            tmo = max(k.get('timeout_s', timeout_default) for k in ks)
            t0 = time.time()
            logp = os.path.join(work, 'kani_%s_%s.log' % (unit['name'], crate))
            try:
                with open(logp, 'w') as lf:
                    p = subprocess.run(cmd, cwd=ov.path, stdout=lf, stderr=subprocess.STDOUT, env=_env(), timeout=tmo + 300)
                rc = p.returncode
            except subprocess.TimeoutExpired:
                rc = 124
            log = open(logp, errors='replace').read()
            parsed = parse_kani_log(log)
            for k in ks:
                pr = parsed.get(k['harness'])
                base = dict(harness=k['harness'], fn=k.get('fn'), bounded=bool(k.get('bounded')), bound=k.get('bound'),
                            domain=k.get('domain'), backend='kani 0.68 / cbmc 6.11', cmd=' '.join(cmd), wall_s=round(time.time() - t0, 1))
                if pr is None or pr['verdict'] is None:
                    base.update(status='undecided', detail='no verdict (rc=%s): %s' % (rc, log[-600:]))
                elif pr['verdict'] == 'SUCCESSFUL':
                    if pr['covers'] and pr['covers'][0] < pr['covers'][1]:
                        base.update(status='undecided', detail='vacuity: %d of %d cover properties satisfied' % pr['covers'])
                    else:
                        base.update(status='ok', detail='%s checks, covers %s, %.1fs' % (pr['checks'][1] if pr['checks'] else '?', pr['covers'], pr['time_s'] or 0),
                                    checks=pr['checks'][1] if pr['checks'] else None, time_s=pr['time_s'])
                else:
                    only_unwind = pr['failed_checks'] and all('unwinding assertion' in x for x in pr['failed_checks'])
                    if only_unwind:
                        base.update(status='undecided', detail='unwinding bound too small')
                    else:
                        base.update(status='failed', detail='; '.join(pr['failed_checks'])[:400], cex=pr['cex'], log_tail=pr['tail'], time_s=pr['time_s'])
                out.append(base)
    return out


def run_witnesses(repo, root, units, violations, work):
    """Run the concrete witness programs of every unit that has a failed obligation; map failing
    witnesses to obligations through unit.json's `witnesses` table."""
    res = {}
    need = sorted({v['unit'] for v in violations})
    progs = [(n, w) for n in need for w in units[n].get('witness_programs', [])]
    if not progs:
        return res
    with Overlay(repo, root) as ov:
        for name, w in progs:
            cmd = ['cargo', 'run', '--offline', '-q', '-p', w['package'], '--example', 'verif_witness_%s' % name]
            if w.get('no_default_features'):
                cmd += ['--no-default-features']
            if w.get('features'):
                cmd += ['--features', w['features']]
            env = _env()
            env['CARGO_TARGET_DIR'] = os.path.join(root, '.cache', 'ov-target')
            logp = os.path.join(work, 'witness_%s.log' % name)
            try:
                p = subprocess.run(cmd, cwd=ov.path, capture_output=True, text=True, env=env, timeout=1500)
                outp, errp = p.stdout, p.stderr
            except subprocess.TimeoutExpired:
                outp, errp = '', 'TIMEOUT'
            open(logp, 'w').write(outp + '\n----stderr----\n' + errp[-4000:])
            ran, failing = [], []
            for m in re.finditer(r'^WITNESS (\S+) (OK|FAIL)[ \t]*(.*)$', outp, flags=re.M):
                ran.append(m.group(1))
                if m.group(2) == 'FAIL':
                    failing.append(dict(name=m.group(1), observed=m.group(3)))
            table = units[name].get('witnesses', {})
            for v in violations:
                if v['unit'] != name:
                    continue
                mine = [f for f in failing if v['fn'] == '*' or v['fn'] in table.get(f['name'], {}).get('fns', [v['fn']])]
                for f in mine:
                    f['input'] = table.get(f['name'], {}).get('input', '')
                res[v['id']] = dict(ran=ran, failing=mine, log=(outp[-3000:] if mine else '') + ('' if ran else errp[-1500:]),
                                    cmd=' '.join(cmd))
    return res


def replay_file(path, repo, root):
    """Re-run what a replay file describes: the unit's witnesses (concrete inputs on the real crate),
    or, without a concrete input, the single obligation."""
    from . import check as C
    rec = json.load(open(path if os.path.isabs(path) else os.path.join(root, path)))
    unit = rec['obligation'].split('::')[0]
    units = C.load_units()
    u = units[unit]
    work = os.path.join(root, '.work', 'replay')
    os.makedirs(work, exist_ok=True)
    v = dict(unit=unit, fn='*' if rec.get('kind') == 'witness' else rec['obligation'].split('::', 1)[1].rsplit('::', 1)[0], id=rec['obligation'])
    if rec.get('failing_inputs'):
        w = run_witnesses(repo, root, units, [v], work).get(v['id'], {})
        names = {f['name'] for f in rec['failing_inputs']}
        still = [f for f in w.get('failing', []) if f['name'] in names]
        for f in still:
            print('REPLAY FAIL %s input=%s observed=%s' % (f['name'], f.get('input'), f.get('observed')))
        if still:
            print('VIOLATION property=%s replay=%s' % (rec['property'], path))
            return 1
        print('replay: the recorded inputs no longer fail')
        return 0
    from . import run as R
    r = R.verify_unit(repo, u['dir'], os.path.join(work, unit), canary=False, rlimit=u.get('rlimit'))
    hit = [f for f in r['failures'] if '%s::%s::%s' % (unit, f['fn'], f['obligation']) == rec['obligation']]
    if hit:
        print(hit[0]['rendered'])
        print('VIOLATION property=%s replay=%s no-failing-input-found' % (rec['property'], path))
        return 1
    if r['undecided']:
        print('UNDECIDED: ' + '; '.join(r['undecided']))
        return 2
    print('replay: obligation %s is discharged on the current tree' % rec['obligation'])
    return 0
