"""Template expansion: builds one Verus file per unit from /repo's current working tree.

Template directives (a line whose first non-blank characters are `//@`):

  //@file A = <path relative to the repo root>
  //@item A :: <struct|enum|const|static|type> <Name> [| attrs=<text>] [| subst "a" => "b"]... [| in=<mod a::b>]
  //@fn A :: [impl <selector> ::] <name> [| ret=<ident>] [| props=C01,C05] [| label=<text>] [| nth=<k>] [| in=<mod>]
       <contract clauses: requires / ensures / decreases ...>       (plain Verus text)
       //@closure <k>: <replacement closure header>
       //@loop <k>: <invariant ... decreases ...>
       //@ghost before|after "<anchor>": <ghost text>
       //@subst "<a>" => "<b>" [<Rn>]
       //@header "<a>" => "<b>"
       //@thread "<recv.method>" => "<ghost arg>"   (R9: append the ghost argument to every call of that callee)
       //@nobody                    (emit header + contract only, `external_body` style stubs are NOT made here)
  //@end

Header and body of every `//@fn` are copied from the repository; only the return value gets a name
(`-> T` becomes `-> (r: T)`), attributes and doc comments in front of the item are dropped, and the
listed rewrites are applied.  Everything else in the template is emitted unchanged.
"""
import os
import re
import difflib
from . import rustlex as L


class Undecided(Exception):
    """Lost anchor / unsupported construct: the run cannot decide (exit 2)."""


R1_METHODS = r'(?:map_err|map|and_then|ok_or_else|or_else|unwrap_or_else|then|filter_map|for_each)'
R1_RE = re.compile(r'\.(' + R1_METHODS + r')\(\s*((?:[A-Za-z_][A-Za-z0-9_]*::)*[A-Z][A-Za-z0-9_]*(?:::[A-Za-z_][A-Za-z0-9_]*)*|(?:[A-Za-z_][A-Za-z0-9_]*::)+[a-z_][A-Za-z0-9_]*)\s*\)')


def _parse_opts(rest):
    parts = [p.strip() for p in re.split(r'\s\|\s', rest)]
    head, opts = parts[0], {}
    substs = []
    for p in parts[1:]:
        m = re.match(r'subst\s+"(.*)"\s*=>\s*"(.*)"(?:\s+(R\d+))?$', p)
        if m:
            substs.append((m.group(1).replace('\\"', '"').replace('\\n', '\n'), m.group(2).replace('\\"', '"').replace('\\n', '\n'), m.group(3) or 'R6'))
            continue
        if '=' in p:
            k, v = p.split('=', 1)
            opts[k.strip()] = v.strip()
        else:
            opts[p] = True
    opts['_subst'] = substs
    return head, opts


class SourceFile:
    cache = {}

    def __init__(self, root, rel):
        self.rel = rel
        self.path = os.path.join(root, rel)
        if not os.path.isfile(self.path):
            raise Undecided('lost anchor: file %s does not exist' % rel)
        self.src = open(self.path, encoding='utf-8').read()
        self.mask = L.mask(self.src)
        self.macro = None

    def instantiate_macro(self, name, binds):
        """R8: keep only the (single) arm body of `macro_rules! name`, with the macro parameters replaced textually
        (`$t` -> the bound text); everything outside the arm body is blanked so that line numbers stay those of the file."""
        m = re.search(r'\bmacro_rules!\s*%s\s*\{' % re.escape(name), self.mask)
        if not m:
            raise Undecided('lost anchor: macro_rules! %s in %s' % (name, self.rel))
        ob = self.mask.find('{', m.start())
        cb = L.match_close(self.mask, ob)
        arrow = self.mask.find('=>', ob, cb)
        if arrow < 0 or self.mask.find('=>', arrow + 2, cb) >= 0 and self.mask[arrow + 2:cb].count('=>') and False:
            raise Undecided('unsupported construct: macro %s has no single arm' % name)
        bo = self.mask.find('{', arrow)
        bc = L.match_close(self.mask, bo)
        # more than one arm?
        rest = self.mask[bc + 1:cb]
        if '=>' in rest:
            raise Undecided('unsupported construct: macro %s has several arms' % name)
        def blank(t):
            return ''.join(ch if ch == '\n' else ' ' for ch in t)
        body = self.src[bo + 1:bc]
        for a, b in sorted(binds, key=lambda ab: -len(ab[0])):
            if a not in body:
                raise Undecided('lost anchor: macro parameter %s not used in %s' % (a, name))
            body = re.sub(re.escape(a) + r'\b', lambda _m: b, body)
        if re.search(r'\$[A-Za-z_]', L.mask(body)):
            raise Undecided('unsupported construct: unbound macro parameter in %s' % name)
        self.src = blank(self.src[:bo + 1]) + body + blank(self.src[bc:])
        self.mask = L.mask(self.src)
        self.macro = (name, binds)

    def line_of(self, off):
        return self.src.count('\n', 0, off) + 1


def _scope(sf, opts, all_last=False):
    """range of the `in=` scope; with all_last, every block matching the LAST path element (several `impl X` blocks)"""
    lo, hi = 0, len(sf.src)
    out = [(lo, hi)]
    if opts.get('in'):
        parts = opts['in'].split('::')
        for n, mod in enumerate(parts):
            if mod.strip().startswith('impl'):
                hits = L.find_block(sf.mask, 'impl', mod.strip()[4:].strip(), lo, hi)
            else:
                hits = L.find_block(sf.mask, 'mod', mod, lo, hi)
            if not hits:
                raise Undecided('lost anchor: mod %s in %s' % (mod, sf.rel))
            lo, hi = hits[0][1] + 1, hits[0][2]
            if n == len(parts) - 1:
                out = [(h[1] + 1, h[2]) for h in hits]
    return out if all_last else (lo, hi)


def find_closures(msk, lo, hi):
    """Offsets (start,end) of closure parameter lists `|...|` in msk[lo:hi] (heuristic)."""
    out = []
    k = lo
    while k < hi:
        ch = msk[k]
        if ch == '|':
            # previous significant char
            j = k - 1
            while j >= lo and msk[j].isspace():
                j -= 1
            prev = msk[j] if j >= lo else '{'
            prevword = re.search(r'([A-Za-z_]+)$', msk[max(lo, j - 8):j + 1])
            is_start = prev in '(,={;[' or (prevword and prevword.group(1) in ('move', 'return', 'else')) \
                or (prev == '>' and msk[j - 1] == '=')
            if is_start:
                if msk[k + 1] == '|':
                    out.append((k, k + 2))
                    k += 2
                    continue
                e = k + 1
                depth = 0
                while e < hi:
                    if msk[e] in '(<[':
                        depth += 1
                    elif msk[e] in ')>]' and msk[e - 1] != '-':
                        depth -= 1
                    elif msk[e] == '|' and depth <= 0:
                        break
                    e += 1
                out.append((k, e + 1))
                k = e + 1
                continue
            elif msk[k + 1] == '|':
                k += 2
                continue
        k += 1
    return out


def find_loops(msk, lo, hi):
    """Offsets of the `{` opening each for/while/loop body in msk[lo:hi], in textual order."""
    out = []
    for m in re.finditer(r'\b(for|while|loop)\b', msk[lo:hi]):
        p = lo + m.start()
        # `for<'a>` in types is not a loop
        q = lo + m.end()
        if msk[q:q + 1] == '<':
            continue
        k = q
        while k < hi:
            if msk[k] in '([':
                k = L.match_close(msk, k)
            elif msk[k] == '{':
                break
            k += 1
        out.append((p, k))
    return out


def make_pub(txt):
    """Visibility-only rewrite of a struct/enum item: the item and all its fields become `pub`."""
    msk = L.mask(txt)
    m = re.search(r'\b(struct|enum)\b', msk)
    head = re.sub(r'\bpub\s*(\([^)]*\))?\s*', '', txt[:m.start()])
    rest = txt[m.start():]
    rmask = msk[m.start():]
    if m.group(1) == 'enum':
        return head + 'pub ' + rest
    k = 0
    while rmask[k] not in '{(;':
        k += 1
    if rmask[k] == ';':
        return head + 'pub ' + rest
    close = L.match_close(rmask, k)
    inner, imask = rest[k + 1:close], rmask[k + 1:close]
    # split fields at depth-0 commas
    fields, depth, start = [], 0, 0
    for i, ch in enumerate(imask):
        if ch in '([{<':
            depth += 1
        elif ch in ')]}' or (ch == '>' and imask[i - 1] != '-'):
            depth -= 1
        elif ch == ',' and depth == 0:
            fields.append(inner[start:i]); start = i + 1
    fields.append(inner[start:])
    out = []
    for f in fields:
        if not f.strip():
            out.append(f); continue
        lead = f[:len(f) - len(f.lstrip())]
        body = re.sub(r'^pub\s*(\([^)]*\))?\s*', '', f.lstrip())
        out.append(lead + 'pub ' + body)
    return head + 'pub ' + rest[:k + 1] + ','.join(out) + rest[close:]


class Gen:
    def __init__(self, repo, template_path, canary=False, relaxed=(), auto_items=()):
        self.repo = repo
        self.tpath = template_path
        self.canary = canary
        self.relaxed = set(relaxed)
        self.auto_items = list(auto_items)   # (repo-relative file, 'const'|'static', name): see run.verify_unit
        self.files = {}
        self.out = []          # lines
        self.fns = []          # function records
        self.rewrites = []     # (kind, fn label, before, after)
        self.dropped = {'attributes': 0, 'doc_comment_lines': 0}
        self.items = []
        self.diffs = []
        self.pending_canaries = []
        self.canary_skipped = []

    def sf(self, alias):
        if alias not in self.files:
            raise Undecided('template error: unknown file alias %s' % alias)
        return self.files[alias]

    def emit(self, text):
        for l in text.split('\n'):
            self.out.append(l)

    def cur_line(self):
        return len(self.out) + 1

    def run(self):
        lines = open(self.tpath, encoding='utf-8').read().split('\n')
        i = 0
        while i < len(lines):
            ln = lines[i]
            s = ln.strip()
            if not s.startswith('//@'):
                if s.startswith('} // verus!') and self.auto_items:
                    self.emit_auto_items()
                self.out.append(ln)
                i += 1
                continue
            d = s[3:].strip()
            if d.startswith('include '):
                inc = os.path.normpath(os.path.join(os.path.dirname(self.tpath), d[8:].strip()))
                lines[i:i + 1] = open(inc, encoding='utf-8').read().split('\n')
                continue
            if d.startswith('file '):
                head, fopts = _parse_opts(d)
                m = re.match(r'file\s+(\w+)\s*=\s*(\S+)', head)
                sf = SourceFile(self.repo, m.group(2))
                if fopts.get('macro'):
                    binds = [(a, b) for (a, b, _k) in fopts['_subst']]
                    sf.instantiate_macro(fopts['macro'], binds)
                    self.rewrites.append(('R8', 'macro ' + fopts['macro'], 'instantiated at', '; '.join('%s => %s' % ab for ab in binds)))
                self.files[m.group(1)] = sf
                i += 1
            elif d.startswith('item '):
                self.do_item(d[5:], ln[:len(ln) - len(ln.lstrip())])
                i += 1
            elif d == 'canaries':
                if self.canary:
                    for (rest_, block_, indent_) in self.pending_canaries:
                        self.do_fn(rest_, block_, ln[:len(ln) - len(ln.lstrip())], as_canary=True)
                    self.pending_canaries = []
                i += 1
            elif d.startswith('fn ') or d.startswith('assumed '):
                is_assumed = d.startswith('assumed ')
                if is_assumed:
                    d = 'fn ' + d[8:] + ' | assumed'
                j = i + 1
                block = []
                while lines[j].strip() != '//@end':
                    block.append(lines[j])
                    j += 1
                    if j >= len(lines):
                        raise Undecided('template error: //@fn without //@end at line %d' % (i + 1))
                self.do_fn(d[3:], block, ln[:len(ln) - len(ln.lstrip())])
                if self.canary and not is_assumed:
                    if re.search(r'\bimpl\b.*\sfor\s', d) or re.search(r'\btrait\b', d):
                        self.pending_canaries.append((d[3:], block, ''))
                    else:
                        self.do_fn(d[3:], block, ln[:len(ln) - len(ln.lstrip())], as_canary=True)
                i = j + 1
            else:
                # comment-like directive (e.g. //@unit, //@props) – keep as comment
                self.out.append(ln)
                i += 1
        self.canary_skipped = [re.sub(r'\s*\|.*', '', r) for (r, _, _) in self.pending_canaries]
        return '\n'.join(self.out) + '\n'

    def emit_auto_items(self):
        """AUTO: file-level `const` / `static` items of the repository that an extracted function refers to but the
        template does not list (typically introduced by the change under test) are copied to the crate root of the
        generated file, so that the function is decided instead of failing to compile."""
        for rel, kind, name in self.auto_items:
            sf = SourceFile(self.repo, rel)
            span = L.find_item(sf.mask, kind, name, 0, len(sf.src))
            if not span:
                raise Undecided('lost anchor: auto item %s %s in %s' % (kind, name, rel))
            txt = L.strip_attrs_and_comments(sf.src[span[0]:span[1]]).strip()
            txt = re.sub(r'^(pub(\([^)]*\))?\s+)?', 'pub ', txt, count=1)
            txt = re.sub(r':\s*&\s*(?!\')', ": &'static ", txt, count=1)
            self.emit(txt)
            self.items.append({'item': kind + ' ' + name, 'file': rel, 'line': sf.line_of(span[0]), 'auto': True})
            self.rewrites.append(('AUTO', 'item ' + name, '', 'copied from ' + rel))
        self.auto_items = []

    # ------------------------------------------------------------------ items
    def do_item(self, rest, indent):
        head, opts = _parse_opts(rest)
        m = re.match(r'(\w+)\s*::\s*(struct|enum|const|static|type|trait)\s+(\w+)$', head)
        if not m:
            raise Undecided('template error: bad //@item %s' % rest)
        sf = self.sf(m.group(1))
        span = None
        for lo, hi in _scope(sf, opts, all_last=True):
            span = L.find_item(sf.mask, m.group(2), m.group(3), lo, hi)
            if span:
                break
        if not span:
            raise Undecided('lost anchor: %s %s in %s' % (m.group(2), m.group(3), sf.rel))
        raw = sf.src[span[0]:span[1]]
        feats = tuple(x for x in opts.get('features', '').split(',') if x)
        raw2 = L.strip_cfg_disabled(raw, feats)
        if raw2 != raw:
            self.dropped['cfg_disabled_members'] = self.dropped.get('cfg_disabled_members', 0) + 1
        txt = L.strip_attrs_and_comments(raw2)
        self.dropped['attributes'] += len(re.findall(r'#\s*\[', L.mask(raw)))
        for a, b, kind in opts['_subst']:
            if a not in txt:
                raise Undecided('lost anchor: subst text %r not in item %s' % (a, m.group(3)))
            txt = txt.replace(a, b)
            self.rewrites.append((kind, 'item ' + m.group(3), a, b))
        if opts.get('pubfields'):
            txt = make_pub(txt)
            self.rewrites.append(('VIS', 'item ' + m.group(3), 'field/item visibility', 'pub'))
        if opts.get('attrs'):
            self.emit(indent + opts['attrs'])
        if opts.get('prefix'):
            txt = opts['prefix'] + ' ' + txt
            self.rewrites.append(('R6', 'item ' + m.group(3), '', opts['prefix']))
        self.items.append({'item': m.group(2) + ' ' + m.group(3), 'file': sf.rel, 'line': sf.line_of(span[0])})
        self.emit('\n'.join(indent + l if l else l for l in txt.split('\n')))

    # -------------------------------------------------------------- functions
    def do_fn(self, rest, block, indent, as_canary=False):
        head, opts = _parse_opts(rest)
        parts = [p.strip() for p in head.split('::')]
        alias = parts[0]
        # re-join: alias :: [impl sel ::] name ; selector may itself contain '::'
        body = head.split('::', 1)[1].strip()
        impl_sel = None
        if re.match(r'impl[\s<]', body) or body.startswith('trait '):
            kw = 'impl' if body.startswith('impl') else 'trait'
            k = body.rfind('::')
            impl_sel = body[len(kw):k].strip()
            name = body[k + 2:].strip()
        else:
            kw = None
            name = body
        sf = self.sf(alias)
        lo, hi = _scope(sf, opts)
        depth = 0
        if impl_sel is not None:
            hits = L.find_block(sf.mask, kw, impl_sel, lo, hi)
            if not hits:
                raise Undecided('lost anchor: %s %s in %s' % (kw, impl_sel, sf.rel))
            cands = []
            for (s, ob, cb) in hits:
                f = L.find_fn(sf.mask, name, ob + 1, cb, 0)
                if f:
                    cands.extend(f)
        else:
            cands = L.find_fn(sf.mask, name, lo, hi, 0) or []
        if len(cands) > 1 and 'nth' not in opts:
            feats = tuple(x for x in opts.get('features', '').split(',') if x)
            act = []
            for c in cands:
                # text between the previous item end and this header = attributes + docs
                j = c['start']
                k = max(sf.mask.rfind(';', 0, j), sf.mask.rfind('}', 0, j), sf.mask.rfind('{', 0, j))
                if L.cfg_attrs_active(sf.src[k + 1:j], feats):
                    act.append(c)
            if len(act) == 1:
                cands = act
        nth = int(opts.get('nth', 1))
        if len(cands) < nth:
            raise Undecided('lost anchor: fn %s (%s) in %s' % (name, impl_sel, sf.rel))
        if len(cands) > 1 and 'nth' not in opts:
            raise Undecided('ambiguous anchor: fn %s (%s) in %s has %d matches' % (name, impl_sel, sf.rel, len(cands)))
        f = cands[nth - 1]
        label = opts.get('label') or ((re.sub(r'\W+', '_', impl_sel).strip('_') + '::' if impl_sel else '') + name)
        props = [p for p in opts.get('props', '').split(',') if p]
        src, msk = sf.src, sf.mask

        # ---- header
        hdr = src[f['start']:f['hdr_end']]
        hmask = msk[f['start']:f['hdr_end']]
        # blank comments inside header
        hdr = ''.join(c if (mc != ' ' or c == ' ') else ' ' for c, mc in zip(hdr, L.mask(hdr, keep_strings=True)))
        if opts.get('async_erase'):
            hdr2 = re.sub(r'\basync\s+fn\b', 'fn', hdr, count=1)
            if hdr2 == hdr:
                raise Undecided('lost anchor: fn %s is not async' % name)
            # keep offsets: the return-type slice below is relative to f['start']
            hdr = hdr2.replace('fn', 'fn' + ' ' * (len(hdr) - len(hdr2)), 1)
            self.rewrites.append(('R4', name, 'async fn', 'fn'))
        if opts.get('mut_self'):
            # R10: `mut self` receivers are not accepted by the verifier: the receiver is taken as `self` and rebound by
            # `let mut vx_self = self;` as the first statement; every `self` in the body then names the rebound value
            hdr2 = re.sub(r'\(\s*mut\s+self\b', lambda m_: '(' + ' ' * (len(m_.group(0)) - 5) + 'self', hdr, count=1)
            if hdr2 == hdr:
                raise Undecided('lost anchor: fn %s does not take `mut self`' % name)
            hdr = hdr2
            self.rewrites.append(('R10', name, 'mut self', 'self + let mut vx_self = self'))
        retname = opts.get('ret')
        hdr_pieces = None
        if f['ret'] and retname:
            a, b = f['ret'][0] - f['start'], f['ret'][1] - f['start']
            hdr_pieces = [hdr[:a], hdr[a:b].strip(), hdr[b:]]
        else:
            hdr = hdr.rstrip()

        # ---- contract + sub-directives
        contract, closures, loops, ghosts, substs, hsubsts = [], {}, {}, [], [], []
        nobody = bool(opts.get('assumed'))
        last, lastk = None, 0
        optional = set()
        loopvars = {}
        opt_substs = []
        threads = []
        etas = []
        hoist = {}
        for bl in block:
            t = bl.strip()
            if t.startswith('//@'):
                dd = t[3:].strip()
                m = re.match(r'closure(\??)\s+(\d+)\s*(?:as\s+\w+\s*)?:\s*(.*)$', dd)
                if m:
                    if m.group(1):
                        optional.add(int(m.group(2)))
                    m = re.match(r'closure\??\s+()(\d+)\s*:\s*(.*)$', dd)
                    m = re.match(r'(\d+)\s*(?:as\s+(\w+)\s*)?:\s*(.*)$', dd.split(None, 1)[1])
                    if m.group(2):
                        hoist[int(m.group(1))] = m.group(2)
                    m = re.match(r'(\d+)\s*(?:as\s+\w+\s*)?:\s*(.*)$', dd.split(None, 1)[1])
                    closures[int(m.group(1))] = m.group(2); last, lastk = 'closure', int(m.group(1)); continue
                m = re.match(r'loop\s+(\d+)\s*(?:\[(\w+)\])?\s*:\s*(.*)$', dd)
                if m:
                    loops[int(m.group(1))] = m.group(3); last, lastk = 'loop', int(m.group(1))
                    if m.group(2):
                        loopvars[int(m.group(1))] = m.group(2)
                    continue
                m = re.match(r'ghost\s+(start|end)()\s*:\s*(.*)$', dd) or re.match(r'ghost\??\s+(before|after)\s+"(.*?)"\s*:\s*(.*)$', dd)
                if m:
                    ghosts.append((m.group(1), m.group(2), m.group(3), dd.startswith('ghost?'))); last, lastk = 'ghost', 0; continue
                m = re.match(r'subst\?\s+"(.*)"\s*=>\s*"(.*)"(?:\s+(R\d+))?$', dd)
                if m:
                    opt_substs.append((m.group(1).replace('\\"', '"').replace('\\n', '\n'), m.group(2).replace('\\"', '"').replace('\\n', '\n'), m.group(3) or 'R5')); continue
                m = re.match(r'subst\s+"(.*)"\s*=>\s*"(.*)"(?:\s+(R\d+))?$', dd)
                if m:
                    substs.append((m.group(1).replace('\\"', '"').replace('\\n', '\n'), m.group(2).replace('\\"', '"').replace('\\n', '\n'), m.group(3) or 'R5')); continue
                m = re.match(r'thread(\??)\s+"(.*)"\s*=>\s*"(.*)"$', dd)
                if m:
                    threads.append((m.group(2), m.group(3), bool(m.group(1)))); continue
                m = re.match(r'header\s+"(.*)"\s*=>\s*"(.*)"$', dd)
                if m:
                    hsubsts.append((m.group(1).replace('\\n', '\n'), m.group(2).replace('\\n', '\n'))); continue
                if dd == 'nobody':
                    nobody = True; continue
                m = re.match(r'eta\s+([\w:]+)$', dd)
                if m:
                    etas.append(m.group(1)); continue
                if dd.startswith('+'):
                    # continuation of the previous loop/closure/ghost directive
                    extra = dd[1:].strip()
                    if ghosts and last == 'ghost':
                        g = ghosts[-1]; ghosts[-1] = (g[0], g[1], g[2] + '\n' + extra, g[3])
                    elif last == 'loop':
                        loops[lastk] += '\n' + extra
                    elif last == 'closure':
                        closures[lastk] += '\n' + extra
                    continue
                raise Undecided('template error: unknown directive %s' % t)
            contract.append(bl)
            continue
        if label in self.relaxed:
            # relaxed regeneration (see run.verify_unit): the body changed shape, so position-based closure / loop /
            # ghost annotations no longer apply; they are dropped and the function is verified without them
            closures, loops, ghosts, hoist = {}, {}, [], {}
        for a, b in hsubsts:
            if hdr_pieces is not None:
                hit = [k for k in range(3) if a in hdr_pieces[k]]
                if not hit:
                    raise Undecided('signature drift: header text %r not found in fn %s' % (a, label))
                for k in hit:
                    hdr_pieces[k] = hdr_pieces[k].replace(a, b)
            else:
                if a not in hdr:
                    raise Undecided('signature drift: header text %r not found in fn %s' % (a, label))
                hdr = hdr.replace(a, b)
            self.rewrites.append(('R7', label, a, b))
        if hdr_pieces is not None:
            hdr = (hdr_pieces[0] + ' (' + retname + ': ' + hdr_pieces[1].strip() + ')' + (' ' if f['where'] else '') + hdr_pieces[2]).rstrip()

        # ---- body
        if f['body'] is None:
            raise Undecided('lost anchor: fn %s has no body' % label)
        b0, b1 = f['body']
        btxt = src[b0:b1]
        bmask = msk[b0:b1]
        edits = []  # (start, end, replacement, kind) offsets relative to body
        # R2 closures
        if closures:
            cl = find_closures(bmask, 0, len(bmask))

            def _pnames(txt):
                # parameter names of a closure parameter list `|a, b: T|` (patterns other than identifiers -> '?')
                inner = txt.strip()
                inner = inner[inner.find('|') + 1:inner.rfind('|')]
                out, depth, cur = [], 0, ''
                for ch in inner:
                    if ch in '(<[':
                        depth += 1
                    elif ch in ')>]':
                        depth -= 1
                    if ch == ',' and depth == 0:
                        out.append(cur); cur = ''
                    else:
                        cur += ch
                if cur.strip():
                    out.append(cur)
                names = []
                for x in out:
                    x = x.split(':')[0].strip()
                    x = re.sub(r'^(mut|ref)\s+', '', x)
                    names.append(x if re.match(r'^\w+$', x) else '?')
                return names
            src_names = [_pnames(bmask[a0:b0]) for (a0, b0) in cl]
            # a directive is anchored by ordinal; when the ordinal no longer carries the directive's parameter names
            # (a closure was inserted or removed before it) and exactly one closure does, it is re-anchored there
            remap = {}
            for k, rep in closures.items():
                m_hdr = re.match(r'\s*(?:move\s+)?(\|[^|]*\|)', rep)
                want = _pnames(m_hdr.group(1)) if m_hdr else None
                if want is None or '?' in want or any(w.startswith('_u') or w.startswith('_unit') for w in want):
                    continue
                if k <= len(cl) and (src_names[k - 1] == want or src_names[k - 1] == ['_'] * len(want)):
                    continue
                cands = [i + 1 for i, nm in enumerate(src_names) if nm == want]
                if len(cands) == 1:
                    remap[k] = cands[0]
            if remap and len(set(remap.get(k, k) for k in closures)) == len(closures):
                closures = {remap.get(k, k): v for k, v in closures.items()}
                hoist = {remap.get(k, k): v for k, v in hoist.items()}
                optional = {remap.get(k, k) for k in optional}
                self.rewrites.append(('R2', label, 'closure ordinals re-anchored by parameter name', str(remap)))
            for k, rep in closures.items():
                if k > len(cl):
                    if k in optional:
                        continue
                    raise Undecided('lost anchor: closure %d of fn %s (found %d)' % (k, label, len(cl)))
                a, b = cl[k - 1]
                # a source closure with an explicit return type `|x: T| -> R { .. }`: the contract header carries its own
                # `-> (name: R)`, so the source's return type annotation is part of what is replaced
                mret = re.match(r'\s*->\s*[^{]+', bmask[b:])
                if mret and '->' in rep:
                    b = b + mret.end()
                if k in hoist:
                    # R2h: the closure is let-bound at the start of the body under a fresh name (it may only
                    # mention parameters), so ghost code can refer to it; the call site gets the name.
                    e = b
                    while bmask[e].isspace():
                        e += 1
                    q = e
                    if bmask[e] == '{':
                        q = L.match_close(bmask, e) + 1
                    else:
                        while q < len(bmask):
                            if bmask[q] in '([{':
                                q = L.match_close(bmask, q)
                            elif bmask[q] in ',)]};':
                                break
                            q += 1
                    body_txt = btxt[e:q].strip()
                    if not body_txt.startswith('{'):
                        body_txt = '{ ' + body_txt + ' }'
                    edits.append((1, 1, ' let %s = %s %s; ' % (hoist[k], rep, body_txt), 'R2'))
                    edits.append((a, q, hoist[k], 'R2'))
                    continue
                edits.append((a, b, rep, 'R2'))
                # R2 + R1c: the source closure takes a tuple pattern, the contract header names a single parameter:
                # bind the pattern from that parameter at the start of the body
                tup = re.match(r'^\|\s*(\([^()|]*\))\s*\|$', bmask[a:b])
                hdr_param = re.match(r'\s*(?:move\s+)?\|\s*(\w+)\s*:', rep)
                bind_tuple = ' let %s = %s; ' % (btxt[a:b].strip()[1:-1].strip(), hdr_param.group(1)) if (tup and hdr_param) else ''
                if re.search(r'\b(ensures|requires)\b|->', rep):
                    # a closure with a contract needs a block body: brace the body expression
                    e = b
                    while bmask[e].isspace():
                        e += 1
                    if bmask[e] != '{':
                        q = e
                        while q < len(bmask):
                            if bmask[q] in '([{':
                                q = L.match_close(bmask, q)
                            elif bmask[q] in ',)]};':
                                break
                            q += 1
                        edits.append((e, e, '{ ' + bind_tuple, 'R2'))
                        edits.append((q, q, ' }', 'R2'))
                        bind_tuple = ''
                    if bind_tuple:
                        edits.append((e + 1, e + 1, bind_tuple, 'R2'))
        # R3 loops
        if loops:
            lp = find_loops(bmask, 0, len(bmask))
            for k, inv in loops.items():
                if k > len(lp):
                    raise Undecided('lost anchor: loop %d of fn %s (found %d)' % (k, label, len(lp)))
                ob = lp[k - 1][1]
                edits.append((ob, ob, '\n' + inv + '\n', 'R3'))
                if k in loopvars:
                    mm = re.search(r'\bin\s+', bmask[lp[k - 1][0]:ob])
                    if not mm:
                        raise Undecided('unsupported construct: loop %d of fn %s is not a for-in loop' % (k, label))
                    q = lp[k - 1][0] + mm.end()
                    edits.append((q, q, loopvars[k] + ': ', 'R3'))
        # ghost insertions
        for where, anchor, text, opt in ghosts:
            if where == 'start':
                edits.append((1, 1, ' ' + text + ' ', 'G'))
                continue
            if where == 'end':
                edits.append((len(btxt) - 1, len(btxt) - 1, ' ' + text + ' ', 'G'))
                continue
            cnt = btxt.count(anchor)
            if cnt == 0 and opt:
                continue
            if cnt != 1:
                raise Undecided('lost anchor: ghost anchor %r occurs %d times in fn %s' % (anchor, cnt, label))
            p = btxt.find(anchor)
            pos = p if where == 'before' else p + len(anchor)
            edits.append((pos, pos, ' ' + text + ' ', 'G'))
        # listed substitutions (shims); `subst?` ones apply only where the text occurs
        for a, b, kind in substs + opt_substs:
            cnt = btxt.count(a)
            if cnt == 0:
                if (a, b, kind) in opt_substs:
                    continue
                raise Undecided('lost anchor: subst text %r not in fn %s' % (a, label))
            p = -1
            while True:
                p = btxt.find(a, p + 1)
                if p < 0:
                    break
                edits.append((p, p + len(a), b, kind))
        # R9 threading: `//@thread "recv.method" => "Tracked(w)"` appends the ghost argument to EVERY call `recv.method(...)`
        # in the body (anchored on the callee only, so the call's own arguments may change without losing the anchor)
        for callee, garg, opt in threads:
            crx = r'\s*\.\s*'.join(re.escape(x) for x in callee.split('.'))
            hits = [m for m in re.finditer(crx + r'\s*\(', bmask) if m.start() == 0 or not (bmask[m.start() - 1].isalnum() or bmask[m.start() - 1] == '_')]
            if not hits and not opt:
                raise Undecided('lost anchor: no call of %s in fn %s' % (callee, label))
            for h in hits:
                ob = h.end() - 1
                cb = L.match_close(bmask, ob)
                empty = bmask[ob + 1:cb].strip() == ''
                edits.append((cb, cb, garg if empty else ', ' + garg, 'R9'))
        # R1 automatic eta expansion
        eta_hits = list(R1_RE.finditer(bmask))
        for nm in etas:
            eta_hits += list(re.finditer(r'\.(' + R1_METHODS + r')\(\s*(' + re.escape(nm) + r')\s*\)', bmask))
        for m in eta_hits:
            path = m.group(2)
            if path in ('Some', 'Ok', 'Err', 'Box::new', 'Some', 'String::from'):
                # vstd knows these constructor functions only as constructors: still expand
                pass
            a, b = m.start(2), m.end(2)
            last_seg = path.split('::')[-1]
            if last_seg[0].isupper():
                # constructor used as a function value
                if path in ('Some',):
                    cty = 'Option<_>'
                elif path in ('Ok', 'Err'):
                    cty = 'Result<_, _>'
                elif path.startswith('Cow::'):
                    cty = "Cow<'_, _>"
                elif '::' in path:
                    cty = path.rsplit('::', 1)[0]
                else:
                    cty = path
                rep = '|x_eta| -> (r_eta: %s) ensures r_eta == %s(x_eta) { %s(x_eta) }' % (cty, path, path)
            else:
                rep = ('|x_eta| -> (r_eta: _) requires call_requires(%s, (x_eta,)) ensures call_ensures(%s, (x_eta,), r_eta) { %s(x_eta) }'
                       % (path, path, path))
            edits.append((a, b, rep, 'R1'))
        # CFG: `#[cfg(..)]` attributes inside the body are resolved for the configuration the unit assumes
        # (features listed in the directive): an active attribute is dropped, an inactive one takes its
        # field / statement with it.
        feats = tuple(x for x in opts.get('features', '').split(',') if x)
        km = L.mask(btxt, keep_strings=True)
        for m in re.finditer(r'#\s*\[\s*cfg\s*\(', km):
            ob = km.find('(', m.start())
            cb = L.match_close(km, ob)
            close_attr = km.find(']', cb)
            if L.cfg_eval(btxt[ob + 1:cb], feats):
                edits.append((m.start(), close_attr + 1, '', 'CFG'))
            else:
                k, depth = close_attr + 1, 0
                while k < len(btxt):
                    ch = bmask[k]
                    if ch in '([{':
                        depth += 1
                    elif ch in ')]}':
                        if depth == 0:
                            break
                        depth -= 1
                    elif ch in ',;' and depth == 0:
                        k += 1
                        break
                    k += 1
                edits.append((m.start(), k, '', 'CFG'))
        # R4: async erasure (`| async_erase` on the directive): `.await` is dropped, the header loses `async`.
        #     Every awaited call becomes a plain call whose contract says what the completed future yields; the function is
        #     thereby treated as running to completion without interleaving with other tasks (stated as an assumption).
        if opts.get('async_erase'):
            for m in re.finditer(r'\s*\.\s*await\b', bmask):
                edits.append((m.start(), m.end(), '', 'R4'))
        # R11 (`| closure_arrays`): `let [a, b] = [f; 2];` - an array of copies of one (Copy) closure taken apart again -
        #      becomes `let a = f; let b = f;` (array-repeat of closures and array patterns are outside the verifier)
        if opts.get('closure_arrays'):
            for m in re.finditer(r'let\s*\[([\w\s,]+)\]\s*=\s*\[\s*(\w+)\s*;\s*(\d+)\s*\]\s*;', bmask):
                names = [x.strip() for x in m.group(1).split(',') if x.strip()]
                if len(names) != int(m.group(3)):
                    raise Undecided('unsupported construct: closure array of %s names and length %s in fn %s' % (len(names), m.group(3), label))
                edits.append((m.start(), m.end(), ' '.join('let %s = %s;' % (nm, m.group(2)) for nm in names), 'R11'))
        if opts.get('mut_self'):
            edits.append((1, 1, ' let mut vx_self = self; ', 'R10'))
            for m in re.finditer(r'\bself\b', bmask):
                edits.append((m.start(), m.end(), 'vx_self', 'R10'))
        # R5g (`| fmt_args` on the directive): `format!("..{a}..{b}..")` whose only argument is a literal with inline captures of
        #      plain identifiers becomes `vx_fmtN(<the literal>, &a, &b, ..)`: a shim declared by the unit whose result is an
        #      UNINTERPRETED function of the literal and the captured values (so "depends only on these values" is provable)
        if opts.get('fmt_args'):
            for m in re.finditer(r'\bformat!\s*\(', bmask):
                ob_ = bmask.find('(', m.start())
                cbp = L.match_close(bmask, ob_)
                arg = btxt[ob_ + 1:cbp].strip()
                ml = re.match(r'^(r(#*)"(.*)"\2|"((?:[^"\\]|\\.)*)")$', arg, re.S)
                if not ml:
                    raise Undecided('unsupported construct: format! with explicit arguments in fn %s (fmt_args)' % label)
                lit = ml.group(3) if ml.group(3) is not None else ml.group(4)
                caps = re.findall(r'(?<!\{)\{(\w+)\}(?!\})', lit.replace('{{', '\0\0').replace('}}', '\0\0'))
                if re.search(r'\{[^}\w]|\{\w+[^}\w]', lit.replace('{{', '').replace('}}', '')):
                    raise Undecided('unsupported construct: format! placeholder other than a plain identifier in fn %s' % label)
                edits.append((m.start(), cbp + 1, 'vx_fmt%d(%s%s)' % (len(caps), arg, ''.join(', &' + c for c in caps)), 'R5'))
        # R5f (`| fmt_opaque` on the directive): every `format!(..)` expression becomes `vx_fmt_opaque()` - an arbitrary String.
        #      The arguments are Display/Debug renderings without side effects in the functions this is used for (stated).
        if opts.get('fmt_opaque'):
            for m in re.finditer(r'\bformat!\s*\(', bmask):
                cbp = L.match_close(bmask, bmask.find('(', m.start()))
                edits.append((m.start(), cbp + 1, 'vx_fmt_opaque()', 'R5'))
        # R1b: `|_|` closure parameters (Verus only accepts variable patterns there) -> `|_unused|`
        for m in re.finditer(r'\|\s*_\s*\|', bmask):
            if not any(e[0] <= m.start() < e[1] for e in edits):
                edits.append((m.start(), m.end(), '|_unused|', 'R1'))
        # R1c: a closure whose single parameter is a tuple pattern `|(a, b)| e` (Verus: variable patterns only)
        #      -> `|p__N| { let (a, b) = p__N; e }`
        for n_cl, (ca, cb) in enumerate(find_closures(bmask, 0, len(bmask))):
            if not re.match(r'^\|\s*\([^()|]*\)\s*\|$', bmask[ca:cb]):
                continue
            if any(e[0] < cb and ca < e[1] for e in edits):
                continue
            e = cb
            while bmask[e].isspace():
                e += 1
            q = e
            if bmask[e] == '{':
                q = L.match_close(bmask, e) + 1
            else:
                while q < len(bmask):
                    if bmask[q] in '([{':
                        q = L.match_close(bmask, q)
                    elif bmask[q] in ',)]};':
                        break
                    q += 1
            if any(e2[0] < q and e < e2[1] for e2 in edits):
                continue
            pat = btxt[ca:cb].strip()[1:-1].strip()
            edits.append((ca, cb, '|p__%d|' % n_cl, 'R1'))
            edits.append((e, e, '{ let %s = p__%d; ' % (pat, n_cl), 'R1'))
            edits.append((q, q, ' }', 'R1'))
        edits = [e for _, e in sorted(enumerate(edits), key=lambda t: (t[1][0], t[1][1], t[0]))]
        for e1, e2 in zip(edits, edits[1:]):
            if e2[0] < e1[1]:
                raise Undecided('unsupported construct: overlapping rewrites in fn %s' % label)
        newb, pos = [], 0
        for a, b, rep, kind in edits:
            newb.append(btxt[pos:a]); newb.append(rep); pos = b
            if kind != 'G' and not as_canary:
                self.rewrites.append((kind, label, btxt[a:b], rep))
        newb.append(btxt[pos:])
        newbody = ''.join(newb)
        ghost_n = sum(1 for e in edits if e[3] == 'G')

        # ---- emit
        ctext = '\n'.join(contract)
        if as_canary:
            label = label + '__canary'
            hdr = re.sub(r'\bfn\s+%s\b' % re.escape(name), 'fn %s__canary' % name, hdr, count=1)
            hdr = hdr.replace('Self::Error', 'SelfError')
        if as_canary:
            cl = ctext.split('\n')
            dec_at = next((k for k, l in enumerate(cl) if re.match(r'\s*decreases\b', l)), len(cl))
            pre, post = cl[:dec_at], cl[dec_at:]
            pre_txt = '\n'.join(pre).rstrip()
            if re.search(r'^\s*ensures\b', pre_txt, re.M):
                pre_txt = pre_txt.rstrip().rstrip(',') + ',\n' + indent + '    false,'
            else:
                pre_txt = pre_txt + '\n' + indent + '  ensures false,'
            ctext = '\n'.join([pre_txt] + post)
        start_line = self.cur_line()
        if nobody:
            self.emit(indent + '#[verifier::external_body]')
        self.emit('\n'.join(indent + l.strip() if k else indent + l.strip() for k, l in enumerate(hdr.split('\n'))))
        c_start = self.cur_line()
        if ctext.strip():
            self.emit(ctext)
        c_end = self.cur_line() - 1
        b_start = self.cur_line()
        if nobody:
            self.emit(indent + '{ unimplemented!() }')
        else:
            self.emit(indent + newbody)
        b_end = self.cur_line() - 1
        rec = dict(label=label, props=props, file=sf.rel, src_line=sf.line_of(f['fn']), gen_start=start_line,
                   contract=(c_start, c_end), body=(b_start, b_end), ghost_insertions=ghost_n,
                   rewrites=[(k, a, b) for (k, a, b, _) in [(e[3], btxt[e[0]:e[1]], e[2], 0) for e in edits] if k != 'G'],
                   name=name, impl=impl_sel, assumed=nobody)
        # diff of body vs repo (should be empty except rewrite sites)
        if newbody != btxt and not as_canary:
            d = list(difflib.unified_diff(btxt.split('\n'), newbody.split('\n'), 'repo:' + sf.rel + '::' + label,
                                          'generated::' + label, lineterm='', n=0))
            self.diffs.append('\n'.join(d))
        self.fns.append(rec)


def generate(repo, template_path, canary=False, relaxed=(), auto_items=()):
    g = Gen(repo, template_path, canary, relaxed, auto_items)
    text = g.run()
    return g, text
