"""bin/check driver: decides one property by running the Verus units (and Kani kernels) mapped to it."""
import concurrent.futures as cf
import glob
import json
import os
import re
import shutil
import sys
import time

from . import run as R
from . import replay as RP

ROOT = os.path.dirname(os.path.dirname(os.path.abspath(__file__)))
REPO = os.environ.get('VX_REPO', '/repo')
WORK = os.path.join(ROOT, '.work')


def load_units():
    units = {}
    for uj in sorted(glob.glob(os.path.join(ROOT, 'units', '*', 'unit.json'))):
        d = json.load(open(uj))
        d['dir'] = os.path.dirname(uj)
        d['name'] = os.path.basename(d['dir'])
        units[d['name']] = d
    return units


def load_known():
    p = os.path.join(ROOT, 'known_findings.json')
    if os.path.isfile(p):
        return json.load(open(p)).get('findings', [])
    return []


def obligation_id(unit, f):
    return '%s::%s::%s' % (unit, f['fn'], f['obligation'])


def main(argv):
    import argparse
    ap = argparse.ArgumentParser()
    ap.add_argument('prop')
    ap.add_argument('--tier', default=os.environ.get('VERIF_TIER', 'quick'))
    ap.add_argument('--replay')
    ap.add_argument('--no-canary', action='store_true')
    ap.add_argument('--keep', action='store_true')
    a = ap.parse_args(argv)
    prop = a.prop
    tier = a.tier if a.tier in ('quick', 'thorough') else 'quick'
    seed = int(os.environ.get('VERIF_SEED', '0') or 0)
    t0 = time.time()
    if a.replay:
        return RP.replay_file(a.replay, REPO, ROOT)

    units = {k: u for k, u in load_units().items() if prop in u.get('props', [])}
    if not units:
        print('no unit serves %s (see MANIFEST.json not_applicable)' % prop)
        return 2
    known = load_known()
    work = os.path.join(WORK, prop)
    shutil.rmtree(work, ignore_errors=True)
    os.makedirs(work, exist_ok=True)

    results = {}
    with cf.ThreadPoolExecutor(max_workers=min(4, len(units))) as ex:
        futs = {ex.submit(R.verify_unit, REPO, u['dir'], os.path.join(work, name), not a.no_canary, u.get('rlimit')): name
                for name, u in units.items()}
        for fu in cf.as_completed(futs):
            results[futs[fu]] = fu.result()

    undecided, violations, known_hits = [], [], []
    evidence_units = []
    total_fns = total_ok = 0
    samples = []
    trusted, assumptions = [], []
    kani_results = []
    bounded = []
    for name in sorted(results):
        r = results[name]
        u = units[name]
        mine = [f for f in r['fns'] if (not f['props']) or prop in f['props']]
        mine_labels = {f['label'] for f in mine}
        for reason in r['undecided']:
            undecided.append('%s: %s' % (name, reason))
        # baseline: every function recorded green on the pinned tree must be decided now
        base = set(u.get('baseline_verified', []))
        missing = [b for b in base if b not in {f['label'] for f in r['fns']}]
        if missing and not r['undecided']:
            undecided.append('%s: functions in baseline missing from this run: %s' % (name, missing))
        fails = [f for f in r['failures'] if f['fn'] in mine_labels and (not f.get('only_props') or prop in f['only_props'])]
        failed_fns = {f['fn'] for f in fails}
        total_fns += len(mine)
        if not r['undecided']:
            total_ok += len([f for f in mine if f['label'] not in failed_fns])
        for f in fails:
            f['unit'] = name
            f['id'] = obligation_id(name, f)
            violations.append(f)
        for f in mine[:4]:
            samples.append({'obligation': '%s::%s' % (name, f['label']), 'source': '%s:%d' % (f['file'], f['src_line']),
                            'status': 'failed' if f['label'] in failed_fns else ('verified' if not r['undecided'] else 'undecided')})
        trusted += ['%s: %s' % (name, x) for x in r['assumptions']]
        evidence_units.append({
            'unit': name, 'verus_cmd': r.get('cmd'), 'verus_wall_s': round(r.get('verus_wall', 0), 2),
            'verus_verified_items': r.get('verified_count'),
            'functions_under_contract': [{'fn': f['label'], 'source': '%s:%d' % (f['file'], f['src_line']),
                                          'props': f['props'], 'rewrites': f['rewrites'],
                                          'ghost_insertions': f['ghost_insertions']} for f in mine],
            'items_copied': r.get('items', []),
            'extraction_dropped': dict(r.get('dropped', {}), note='doc comments, attributes (#[derive], #[serde], #[inline]…), visibility-neutral; items not named by the unit'),
            'rewrites': [list(x) for x in r.get('rewrites', [])],
            'canary': r.get('canary'),
            'smt_ms_by_function': {k: v['ms'] for k, v in r.get('smt', {}).items() if not k.startswith('vstd::')},
            'undecided': r['undecided'],
        })

    # Kani kernels (complete, loop-free) and bounded stand-ins
    kani_undecided = []
    for name in sorted(units):
        u = units[name]
        ks = [k for k in u.get('kani', []) if prop in k.get('props', u['props']) and (tier == 'thorough' or k.get('tier', 'quick') == 'quick')]
        if not ks:
            continue
        kr = RP.run_kani(REPO, ROOT, u, ks, work)
        for k in kr:
            kani_results.append(k)
            if k['status'] == 'undecided':
                (bounded if k.get('bounded') else kani_undecided).append('%s: kani %s: %s' % (name, k['harness'], k['detail']))
                if not k.get('bounded'):
                    undecided.append('%s: kani %s undecided: %s' % (name, k['harness'], k['detail']))
            elif k['status'] == 'failed':
                violations.append(dict(unit=name, fn=k.get('fn', k['harness']), props=[prop], kind='kani',
                                       obligation='kani(%s)' % k['harness'], id='%s::%s::kani(%s)' % (name, k.get('fn', k['harness']), k['harness']),
                                       message=k['detail'], rendered=k.get('log_tail', ''), cex=k.get('cex'), src=k.get('src', '')))

    # one report per obligation (a postcondition can fail at several exits)
    seen_ids, uniq = set(), []
    for v in violations:
        if v['id'] not in seen_ids:
            seen_ids.add(v['id']); uniq.append(v)
    violations = uniq
    # ---- triage of violations: replay, known findings
    rc = 0
    lines = []
    replay_dir = os.path.join(ROOT, 'replays', prop)
    new_violations = 0
    if violations:
        shutil.rmtree(replay_dir, ignore_errors=True)
        os.makedirs(replay_dir, exist_ok=True)
        wit = RP.run_witnesses(REPO, ROOT, units, violations, work) if not os.environ.get('VX_NO_WITNESS') else {}
        for v in violations:
            w = wit.get(v['id'], {})
            failing = w.get('failing', [])
            kf = [k for k in known if k.get('status') == 'open' and k.get('property') == prop and k.get('obligation') == v['id']]
            if kf and not w.get('ran') and units[v['unit']].get('witness_programs'):
                # the finding is identified by its inputs: without a witness run it cannot be matched
                kf = []
            rp = os.path.join(replay_dir, re.sub(r'[^A-Za-z0-9_.-]+', '_', v['id']).strip('_') + '.json')
            rec = dict(property=prop, obligation=v['id'], kind=v['kind'], message=v['message'], source=v.get('src'),
                       verifier_output=v.get('rendered', ''), failing_inputs=failing, witnesses_run=w.get('ran', []),
                       witness_log=w.get('log', ''), kani_counterexample=v.get('cex'),
                       how_to_replay='bin/check %s --replay %s' % (prop, os.path.relpath(rp, ROOT)))
            json.dump(rec, open(rp, 'w'), indent=1)
            if kf:
                listed = set(sum([k.get('inputs', []) for k in kf], []))
                unlisted = [x for x in failing if x['name'] not in listed]
                if not unlisted:
                    for k in kf:
                        lines.append('KNOWN-FINDING: property=%s %s [%s]' % (prop, k.get('what', ''), v['id']))
                        known_hits.append(k.get('id', v['id']))
                    v['_known'] = True
                    continue
                rec['unlisted_failing_inputs'] = unlisted
                json.dump(rec, open(rp, 'w'), indent=1)
            if v.get('relaxed') and not failing:
                # proof only failed after the position-based annotations were dropped and no concrete input fails: undecided
                undecided.append('%s: %s changed shape (annotations no longer apply) and no witness fails on it: %s' % (v['unit'], v['fn'], v['id']))
                continue
            new_violations += 1
            tail = '' if (failing or v.get('cex')) else ' no-failing-input-found'
            lines.append('FAILED-OBLIGATION %s (%s) %s' % (v['id'], v['message'], ('failing inputs: ' + ', '.join(x['name'] + ' [' + x.get('input', '') + '] -> ' + x.get('observed', '') for x in failing)) if failing else ('kani counterexample: %s' % v.get('cex') if v.get('cex') else 'no concrete failing input')))
            lines.append('VIOLATION property=%s replay=%s%s' % (prop, rp, tail))
            rc = 1
    # ---- both tiers (the quick tier can opt out with VX_QUICK_NO_SWEEP=1): additionally run every witness program of the
    # units serving the property on the current tree (concrete runs on the real crates: TESTING, never counted as proved).
    # A concrete input that fails against the real crates is reported even when every obligation was discharged (the
    # contracts stop at the dependency boundary; defect D7 was found this way).  Inputs listed by an open known finding
    # are expected to fail.
    witness_sweep = []
    if (tier == 'thorough' or not os.environ.get('VX_QUICK_NO_SWEEP')) and not os.environ.get('VX_NO_WITNESS'):
        pseudo = [dict(unit=n, fn='*', id='witness::' + n) for n in sorted(units) if units[n].get('witness_programs')]
        wit_all = RP.run_witnesses(REPO, ROOT, units, pseudo, work) if pseudo else {}
        # open findings of THIS property (a finding recorded under another property does not excuse a failure here)
        listed_by = {}
        for k in known:
            if k.get('status') == 'open' and k.get('property') == prop:
                for nm in k.get('inputs', []):
                    listed_by.setdefault(nm, k)
        listed = set(listed_by)
        # a witness program belongs to a unit, a property is served by some of the unit's functions: a failing witness counts
        # for THIS property only if it exercises a function tagged with it (or names no function under contract at all)
        fn_props = {n: {f['label']: f['props'] for f in results[n]['fns']} for n in results}
        def relevant(unit, wname):
            wd = (units[unit].get('witnesses') or {}).get(wname, {})
            if wd.get('props'):
                return prop in wd['props']
            labs = [l for l in wd.get('fns', []) if l in fn_props.get(unit, {})]
            if not labs:
                return True
            return any((not fn_props[unit][l]) or prop in fn_props[unit][l] for l in labs)
        already = {x['name'] for v in violations for x in (v.get('_failing') or [])}
        for pv in pseudo:
            w = wit_all.get(pv['id'], {})
            witness_sweep.append(dict(unit=pv['unit'], ran=w.get('ran', []), failing=[x['name'] for x in w.get('failing', [])]))
            if not w.get('ran') and units[pv['unit']].get('witnesses'):
                undecided.append('%s: witness program did not run: %s' % (pv['unit'], (w.get('log') or '')[-300:]))
            for x in w.get('failing', []):
                if not relevant(pv['unit'], x['name']):
                    continue
                if x['name'] in listed:
                    k = listed_by[x['name']]
                    if k.get('id') not in known_hits:
                        lines.append('KNOWN-FINDING: property=%s %s [%s::witness(%s)]' % (prop, k.get('what', ''), pv['unit'], x['name']))
                        known_hits.append(k.get('id'))
                    continue
                os.makedirs(replay_dir, exist_ok=True)
                oid = '%s::witness(%s)' % (pv['unit'], x['name'])
                rp = os.path.join(replay_dir, re.sub(r'[^A-Za-z0-9_.-]+', '_', oid).strip('_') + '.json')
                json.dump(dict(property=prop, obligation=oid, kind='witness', message='concrete input fails on the real crate',
                               failing_inputs=[x], witnesses_run=w.get('ran', []), witness_log=w.get('log', ''),
                               how_to_replay='bin/check %s --replay %s' % (prop, os.path.relpath(rp, ROOT))), open(rp, 'w'), indent=1)
                if not any(l.startswith('VIOLATION') and x['name'] in ' '.join(lines) for l in lines):
                    lines.append('FAILED-OBLIGATION %s (concrete witness fails on the real crate) failing inputs: %s [%s] -> %s' % (oid, x['name'], x.get('input', ''), x.get('observed', '')))
                    lines.append('VIOLATION property=%s replay=%s' % (prop, rp))
                    new_violations += 1
                    rc = 1
    if undecided and rc == 0:
        rc = 2

    wall = time.time() - t0
    # functions whose only failing obligations are listed open known findings are not part of the claim
    kf_fns = {(v['unit'], v['fn']) for v in violations if v.get('_known')}
    bad_fns = {(v['unit'], v['fn']) for v in violations if not v.get('_known')}
    total_fns -= len(kf_fns - bad_fns)
    obligations = total_fns + len([k for k in kani_results if not k.get('bounded')])
    discharged = total_ok + len([k for k in kani_results if not k.get('bounded') and k['status'] == 'ok'])
    discharged -= 0
    all_units = load_units()
    ev = {
        'property_id': prop, 'tier': tier, 'seed': seed,
        'level': 'proof',
        'coverage': {
            'obligations': obligations,
            'discharged': discharged if rc != 2 else min(discharged, obligations),
            'checker_cmd': '; '.join(sorted({e['verus_cmd'] for e in evidence_units if e.get('verus_cmd')})) or 'verus (not run)',
            'trusted_base': sorted(set(trusted)),
            'explanation': 'One obligation = one function under contract whose full Verus verification condition (pre/postconditions, '
                           'loop invariants, overflow/index/unwrap safety) was discharged by Z3, plus one per complete loop-free Kani kernel. '
                           'Bodies and headers are re-extracted from /repo on every run. witness_sweep lists the concrete witness programs '
                           '(runs on the real crates, some of them bounded exhaustive enumerations against an independent model) executed '
                           'after the obligations: that is TESTING, it is never counted in obligations / discharged.',
            'samples': samples[:12],
            'units': evidence_units,
            'kani': kani_results,
            'bounded_stand_ins': [k for k in kani_results if k.get('bounded')],
            'known_findings_hit': known_hits,
            'witness_sweep': witness_sweep,
            'undecided': undecided,
            'exhaustive': False,
        },
        'assumptions': sorted(set(sum([u.get('assumptions', []) for u in units.values()], []))),
        'wall_s': round(wall, 2),
        'violations': new_violations,
    }
    os.makedirs(os.path.join(ROOT, 'evidence'), exist_ok=True)
    json.dump(ev, open(os.path.join(ROOT, 'evidence', prop + '.json'), 'w'), indent=1)

    for l in lines:
        print(l)
    for u in undecided:
        print('UNDECIDED: ' + u)
    print('%s tier=%s units=%s functions_under_contract=%d discharged=%d kani=%d wall=%.1fs exit=%d' % (
        prop, tier, ','.join(sorted(units)), total_fns, total_ok, len(kani_results), wall, rc))
    if not a.keep and rc == 0:
        shutil.rmtree(work, ignore_errors=True)
    return rc


if __name__ == '__main__':
    sys.exit(main(sys.argv[1:]))
