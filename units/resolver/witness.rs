// Concrete witnesses for the `resolver` unit, run against the real identity_resolver crate.  The dispatch clause is also
// proved (unit resolver); the completion-order clause of resolve_multiple is NOT within reach of the verifiers and is only
// sampled here: handler futures whose readiness is scripted, polled by futures::executor, over every permutation of delays.
use futures::executor::block_on;
use identity_core::convert::{Base, BaseEncoding, ToJson};
use identity_did::{CoreDID, DIDJwk, DID};
use identity_document::document::CoreDocument;
use identity_resolver::{ErrorCause, SingleThreadedResolver};
use std::cell::RefCell;
use std::future::Future;
use std::pin::Pin;
use std::rc::Rc;
use std::task::{Context, Poll};

type Log = Rc<RefCell<Vec<(String, String)>>>;
type R = SingleThreadedResolver<CoreDocument>;

/// a future that is pending `delay` times (waking itself) before it yields
struct Delayed { left: usize, out: Option<Result<CoreDocument, std::io::Error>> }
impl Future for Delayed {
  type Output = Result<CoreDocument, std::io::Error>;
  fn poll(mut self: Pin<&mut Self>, cx: &mut Context<'_>) -> Poll<Self::Output> {
    if self.left == 0 { Poll::Ready(self.out.take().unwrap()) } else { self.left -= 1; cx.waker().wake_by_ref(); Poll::Pending }
  }
}
fn doc_for(did: &CoreDID) -> CoreDocument { CoreDocument::builder(Default::default()).id(did.clone()).build().unwrap() }
/// handler for one method: logs (method tag, did), delay looked up by the DID's method id, fails for ids starting with "bad"
fn attach(r: &mut R, method: &str, tag: &str, log: &Log, delays: Rc<RefCell<Vec<(String, usize)>>>) {
  let (tag, log) = (tag.to_owned(), log.clone());
  r.attach_handler(method.to_owned(), move |did: CoreDID| {
    log.borrow_mut().push((tag.clone(), did.to_string()));
    let delay = delays.borrow().iter().find(|(id, _)| id == did.method_id()).map(|(_, d)| *d).unwrap_or(0);
    let out = if did.method_id().starts_with("bad") { Err(std::io::Error::new(std::io::ErrorKind::Other, "scripted failure")) } else { Ok(doc_for(&did)) };
    Delayed { left: delay, out: Some(out) }
  });
}
fn did(s: &str) -> CoreDID { CoreDID::parse(s).unwrap() }

fn dispatch_by_method() -> Result<(), String> {
  let log: Log = Default::default();
  let delays = Rc::new(RefCell::new(Vec::new()));
  let mut r = R::new();
  attach(&mut r, "foo", "foo-handler", &log, delays.clone());
  attach(&mut r, "bar", "bar-handler", &log, delays.clone());
  for (d, tag) in [("did:foo:1", "foo-handler"), ("did:bar:1", "bar-handler"), ("did:foo:bar", "foo-handler"), ("did:bar:foo", "bar-handler")] {
    log.borrow_mut().clear();
    let doc = block_on(r.resolve(&did(d))).map_err(|e| format!("{d}: {e}"))?;
    if doc.id().as_str() != d { return Err(format!("{d}: resolved document has id {}", doc.id())); }
    if *log.borrow() != vec![(tag.to_owned(), d.to_owned())] { return Err(format!("{d}: handler calls {:?}", log.borrow())); }
  }
  // no handler for the method: error naming the method, nothing called (method id equal to a registered method must not count)
  for d in ["did:baz:1", "did:fo:foo", "did:fooo:bar", "did:example:foo"] {
    log.borrow_mut().clear();
    match block_on(r.resolve(&did(d))) {
      Ok(_) => return Err(format!("{d}: resolved without a handler")),
      Err(e) => match e.error_cause() {
        ErrorCause::UnsupportedMethodError { method } => if method != did(d).method() { return Err(format!("{d}: error names method {method}")); },
        other => return Err(format!("{d}: wrong error {other}")),
      },
    }
    if !log.borrow().is_empty() { return Err(format!("{d}: a handler was called: {:?}", log.borrow())); }
  }
  // whatever error the handler itself returns - even a resolver error of an INNER resolver it delegates to - is a
  // HandlerError of this resolver: the handler WAS called, so the outcome must not read "unsupported method"
  {
    let mut outer = R::new();
    outer.attach_handler("wrap".to_owned(), |d: CoreDID| async move {
      let inner = R::new();
      inner.resolve(&d).await
    });
    match block_on(outer.resolve(&did("did:wrap:1"))) {
      Ok(_) => return Err("delegating handler over an empty inner resolver succeeded".into()),
      Err(e) => if !matches!(e.error_cause(), ErrorCause::HandlerError { .. }) { return Err(format!("error of a called handler reported as {}", <&'static str>::from(e.error_cause()))); },
    }
  }
  // a handler's failure is reported, a later attach for the same method replaces the handler
  if block_on(r.resolve(&did("did:foo:bad1"))).is_ok() { return Err("handler failure not reported".into()); }
  attach(&mut r, "foo", "foo-second", &log, delays.clone());
  log.borrow_mut().clear();
  block_on(r.resolve(&did("did:foo:2"))).map_err(|e| e.to_string())?;
  if *log.borrow() != vec![("foo-second".to_owned(), "did:foo:2".to_owned())] { return Err(format!("after re-attach: calls {:?}", log.borrow())); }
  Ok(())
}

fn permutations(n: usize) -> Vec<Vec<usize>> {
  if n == 0 { return vec![vec![]]; }
  let mut out = Vec::new();
  for p in permutations(n - 1) { for i in 0..n { let mut q = p.clone(); q.insert(i, n - 1); out.push(q); } }
  out
}

fn multiple_any_completion_order() -> Result<(), String> {
  let ids = ["a", "b", "c", "d"];
  let inputs: Vec<CoreDID> = ["did:foo:a", "did:bar:b", "did:foo:c", "did:foo:a", "did:bar:d", "did:bar:b", "did:foo:a"].iter().map(|s| did(s)).collect();
  for perm in permutations(4) {
    let log: Log = Default::default();
    let delays = Rc::new(RefCell::new(ids.iter().zip(perm.iter()).map(|(i, d)| (i.to_string(), *d * 3)).collect::<Vec<_>>()));
    let mut r = R::new();
    attach(&mut r, "foo", "foo", &log, delays.clone());
    attach(&mut r, "bar", "bar", &log, delays.clone());
    let got = block_on(r.resolve_multiple(&inputs)).map_err(|e| format!("delays {perm:?}: {e}"))?;
    if got.len() != 4 { return Err(format!("delays {perm:?}: {} entries for 4 distinct DIDs", got.len())); }
    for d in &inputs {
      let single = block_on(r.resolve(d)).map_err(|e| e.to_string())?;
      match got.get(d) { Some(doc) if *doc == single && doc.id() == d => {}, other => return Err(format!("delays {perm:?}: entry for {d} is {:?}", other.map(|x| x.id().to_string()))) }
    }
    // each distinct DID was resolved exactly once by resolve_multiple, by the handler of its method
    let calls: Vec<(String, String)> = log.borrow().iter().take(4).cloned().collect();
    for d in ["did:foo:a", "did:bar:b", "did:foo:c", "did:bar:d"] {
      let n = calls.iter().filter(|(t, x)| x == d && t == did(d).method()).count();
      if n != 1 { return Err(format!("delays {perm:?}: {d} resolved {n} times by its handler: {calls:?}")); }
    }
    // one failing DID fails the whole call, whatever finishes first
    let mut with_bad = inputs.clone(); with_bad.insert(perm[0], did("did:foo:bad"));
    delays.borrow_mut().push(("bad".into(), perm[1] * 3));
    if block_on(r.resolve_multiple(&with_bad)).is_ok() { return Err(format!("delays {perm:?}: resolve_multiple succeeded although one DID fails")); }
    // an unsupported method anywhere in the list fails the call
    let mut with_unsupported = inputs.clone(); with_unsupported.insert(perm[2], did("did:nope:x"));
    match block_on(r.resolve_multiple(&with_unsupported)) { Ok(_) => return Err("unsupported method in resolve_multiple accepted".into()), Err(e) => if !matches!(e.error_cause(), ErrorCause::UnsupportedMethodError { .. }) { return Err(format!("unsupported method: wrong error {e}")); } }
  }
  if !block_on(R::new().resolve_multiple::<CoreDID>(&[])).map_err(|e| e.to_string())?.is_empty() { return Err("empty input gives entries".into()); }
  Ok(())
}

fn did_jwk_expansion() -> Result<(), String> {
  let jwks = [
    r#"{"kty":"OKP","crv":"X25519","use":"enc","x":"3p7bfXt9wbTTW2HC7OQ1Nz-DQ8hbeGdNrfx-FG-IK08"}"#,
    r#"{"crv":"P-256","kty":"EC","x":"acbIQiuMs3i8_uszEjJ2tpTtRM4EU3yz91PH6CdH2V0","y":"_KcyLj9vWMptnmKtm46GqDz8wf74I5LKgrl2GzH3nSE"}"#,
    r#"{"kty":"OKP","crv":"Ed25519","x":"11qYAYKxCrfVS_7TyWQHOg7hcvPapiMlrwIaaPcHURo","alg":"EdDSA","kid":"some-kid"}"#,
  ];
  let mut r = R::new();
  r.attach_did_jwk_handler();
  for j in jwks {
    let s = format!("did:jwk:{}", BaseEncoding::encode(&j.as_bytes().to_vec(), Base::Base64Url));
    let d = DIDJwk::parse(&s).map_err(|e| format!("{s}: {e}"))?;
    let key = d.jwk().to_json_value().map_err(|e| e.to_string())?;
    let doc = block_on(r.resolve(&d)).map_err(|e| format!("{s}: {e}"))?;
    if doc.id().as_str() != s { return Err(format!("{s}: document id {}", doc.id())); }
    let v = doc.to_json_value().map_err(|e| e.to_string())?;
    let methods = v["verificationMethod"].as_array().ok_or("no verificationMethod array")?;
    if methods.len() != 1 { return Err(format!("{s}: {} verification methods", methods.len())); }
    if methods[0]["publicKeyJwk"] != key { return Err(format!("{s}: method carries {} instead of {key}", methods[0]["publicKeyJwk"])); }
    let mid = format!("{s}#0");
    if methods[0]["id"] != mid.as_str() || methods[0]["controller"] != s.as_str() || methods[0]["type"] != "JsonWebKey2020" { return Err(format!("{s}: method {}", methods[0])); }
    for rel in ["authentication", "assertionMethod", "capabilityInvocation", "capabilityDelegation"] {
      let a = v[rel].as_array().ok_or(format!("{s}: no {rel}"))?;
      if a.len() != 1 || a[0] != mid.as_str() { return Err(format!("{s}: {rel} = {}", v[rel])); }
    }
    if !v["keyAgreement"].is_null() || !v["service"].is_null() { return Err(format!("{s}: unexpected members {v}")); }
    if *doc.methods(None)[0].data().public_key_jwk().ok_or("not a JWK method")? != d.jwk() { return Err(format!("{s}: method key differs from the DID's key")); }
  }
  // not a did:jwk / not a JWK
  for bad in ["did:jwk:", "did:jwk:e30", "did:jwk:z6MkiTBz1ymuepAQ4HEHYSF1H8quG5GLVVQR3djdX3mDooWp", "did:key:eyJrdHkiOiJPS1AifQ"] {
    if DIDJwk::parse(bad).is_ok() { return Err(format!("{bad} accepted as did:jwk")); }
  }
  Ok(())
}

fn w(name: &str, r: Result<(), String>) { match r { Ok(()) => println!("WITNESS {name} OK"), Err(e) => println!("WITNESS {name} FAIL {e}") } }

fn main() {
  w("rs_dispatch_by_method", dispatch_by_method());
  w("rs_multiple_any_completion_order", multiple_any_completion_order());
  w("rs_did_jwk_expansion", did_jwk_expansion());
}
