// Concrete witnesses for the `jws_encode` unit, run against the real crate (public API only):
// every JWS the three encoders produce is decoded by the library's decoder to what was signed.
use identity_jose::jws::{CharSet, CompactJwsEncoder, CompactJwsEncodingOptions, Decoder, FlattenedJwsEncoder, GeneralJwsEncoder, JwsAlgorithm, JwsHeader, Recipient};
use std::panic::catch_unwind;

fn w(name: &str, f: impl FnOnce() -> Result<(), String> + std::panic::UnwindSafe) {
  match catch_unwind(f) {
    Ok(Ok(())) => println!("WITNESS {name} OK"),
    Ok(Err(e)) => println!("WITNESS {name} FAIL {e}"),
    Err(_) => println!("WITNESS {name} FAIL panicked"),
  }
}
fn header(b64: Option<bool>, kid: &str) -> JwsHeader {
  let mut h = JwsHeader::new();
  h.set_alg(JwsAlgorithm::EdDSA);
  h.set_kid(kid);
  if let Some(b) = b64 { h.set_b64(b); h.set_crit(["b64"]); }
  h
}
/// same header parameters (a decoded header reads "no additional parameters" back as an empty map, the built one has None)
fn same(a: Option<&JwsHeader>, b: Option<&JwsHeader>) -> bool { serde_json::to_string(&a).unwrap() == serde_json::to_string(&b).unwrap() }
/// the detached payload handed to the decoder is the payload SEGMENT (base64url unless b64=false), as in the crate's own tests
fn seg(b64: Option<bool>, payload: &[u8]) -> Vec<u8> { if b64 == Some(false) { payload.to_vec() } else { identity_jose::jwu::encode_b64(payload).into_bytes() } }
fn sig(input: &[u8]) -> Vec<u8> { input.iter().rev().take(16).cloned().collect() }

fn main() {
  std::panic::set_hook(Box::new(|_| {}));
  w("je_compact_roundtrip_grid", || {
    for b64 in [None, Some(true), Some(false)] {
      for detached in [false, true] {
        for payload in [&b"{\"a\":1}"[..], b"plain text", b"x", b"~-_az09", &[0xF0, 0x9F, 0x98, 0x80][..]] {
          let h = header(b64, "k1");
          let opts = if detached { CompactJwsEncodingOptions::Detached } else { CompactJwsEncodingOptions::NonDetached { charset_requirements: CharSet::Default } };
          let enc = match CompactJwsEncoder::new_with_options(payload, &h, opts) {
            Ok(e) => e,
            Err(_) => {
              // only an attached, unencoded payload outside the charset may be refused
              if b64 == Some(false) && !detached && !payload.iter().all(|c| (0x20..=0x7e).contains(c) && *c != b'.') { continue; }
              return Err(format!("encoder refused b64={b64:?} detached={detached} payload={payload:?}"));
            }
          };
          let input = enc.signing_input().to_vec();
          let jws = enc.into_jws(&sig(&input));
          let segv = seg(b64, payload);
          let item = Decoder::new().decode_compact_serialization(jws.as_bytes(), detached.then_some(&segv[..]))
            .map_err(|e| format!("own decoder rejects b64={b64:?} detached={detached} payload={payload:?} jws={jws}: {e}"))?;
          if item.signing_input() != &input[..] { return Err(format!("signing input differs b64={b64:?} detached={detached} payload={payload:?}")); }
          if item.claims() != payload { return Err(format!("claims differ b64={b64:?} detached={detached} payload={payload:?}")); }
          if item.decoded_signature() != &sig(&input)[..] { return Err("signature differs".into()); }
          if !same(item.protected_header(), Some(&h)) { return Err("protected header differs".into()); }
        }
      }
    }
    Ok(())
  });
  w("je_unencoded_attached_payload_charset", || {
    let h = header(Some(false), "k1");
    for (payload, cs, want) in [
      (&b"version 3.14"[..], CharSet::Default, false), (b"a.b", CharSet::UrlSafe, false), (b".", CharSet::Default, false),
      (b"hello world!", CharSet::Default, true), (b"hello world!", CharSet::UrlSafe, false), (b"abc-_~09AZ", CharSet::UrlSafe, true),
      (b"-", CharSet::Default, true), (b"/", CharSet::Default, true), (b"~", CharSet::Default, true), (b"\x7f", CharSet::Default, false), (b"\x1f", CharSet::Default, false),
      (&[0xC3, 0xA9][..], CharSet::Default, false), (&[0xFF][..], CharSet::Default, false),
    ] {
      let r = CompactJwsEncoder::new_with_options(payload, &h, CompactJwsEncodingOptions::NonDetached { charset_requirements: cs });
      if r.is_ok() != want { return Err(format!("payload {:?} charset {cs:?}: accepted={} expected={want}", String::from_utf8_lossy(payload), r.is_ok())); }
      if let Ok(enc) = r {
        let input = enc.signing_input().to_vec();
        let jws = enc.into_jws(b"s");
        let item = Decoder::new().decode_compact_serialization(jws.as_bytes(), None).map_err(|e| format!("own decoder rejects {jws}: {e}"))?;
        if item.claims() != payload || item.signing_input() != &input[..] { return Err(format!("round trip differs for {jws}")); }
      }
    }
    Ok(())
  });
  w("je_flattened_roundtrip_grid", || {
    for b64 in [None, Some(false)] {
      for detached in [false, true] {
        let p = header(b64, "k1");
        let mut u = JwsHeader::new(); u.set_nonce("n");
        for rcp in [Recipient::new().protected(&p), Recipient::new().protected(&p).unprotected(&u)] {
          let payload = b"{\"a\":1}";
          let enc = FlattenedJwsEncoder::new(payload, rcp, detached).map_err(|e| format!("encoder refused b64={b64:?} detached={detached}: {e}"))?;
          let input = enc.signing_input().to_vec();
          let jws = enc.into_jws(&sig(&input)).map_err(|e| format!("into_jws: {e}"))?;
          let segv = seg(b64, payload);
          let item = Decoder::new().decode_flattened_serialization(jws.as_bytes(), detached.then_some(&segv[..]))
            .map_err(|e| format!("own decoder rejects b64={b64:?} detached={detached} jws={jws}: {e}"))?;
          if item.signing_input() != &input[..] || item.claims() != payload { return Err(format!("round trip differs b64={b64:?} detached={detached}")); }
          if !same(item.protected_header(), Some(&p)) || !same(item.unprotected_header(), rcp.unprotected) { return Err("headers differ".into()); }
        }
      }
    }
    // no header at all is refused
    if FlattenedJwsEncoder::new(b"x", Recipient::new(), false).is_ok() { return Err("recipient without any header accepted".into()); }
    Ok(())
  });
  w("je_general_recipients_share_payload_encoding", || {
    for b64 in [None, Some(false)] {
      for detached in [false, true] {
        let payload = b"{\"a\":1}";
        let (h1, h2, h3) = (header(b64, "k1"), header(b64, "k2"), header(b64, "k3"));
        let e = GeneralJwsEncoder::new(payload, Recipient::new().protected(&h1), detached).map_err(|e| format!("new b64={b64:?}: {e}"))?;
        let i1 = e.signing_input().to_vec();
        let e = e.set_signature(&sig(&i1));
        let e = e.add_recipient(Recipient::new().protected(&h2)).map_err(|e| format!("second recipient with the same b64={b64:?} refused: {e}"))?;
        let i2 = e.signing_input().to_vec();
        let e = e.set_signature(&sig(&i2));
        let e = e.add_recipient(Recipient::new().protected(&h3)).map_err(|e| format!("third recipient with the same b64={b64:?} refused: {e}"))?;
        let i3 = e.signing_input().to_vec();
        let jws = e.set_signature(&sig(&i3)).into_jws().map_err(|e| format!("into_jws: {e}"))?;
        let segv = seg(b64, payload);
        let items: Vec<_> = Decoder::new().decode_general_serialization(jws.as_bytes(), detached.then_some(&segv[..]))
          .map_err(|e| format!("own decoder rejects b64={b64:?} detached={detached} jws={jws}: {e}"))?
          .collect::<Result<Vec<_>, _>>().map_err(|e| format!("own decoder rejects a signature b64={b64:?} detached={detached} jws={jws}: {e}"))?;
        if items.len() != 3 { return Err(format!("{} signatures decoded, 3 produced", items.len())); }
        for (item, (input, h)) in items.iter().zip([(&i1, &h1), (&i2, &h2), (&i3, &h3)]) {
          if item.signing_input() != &input[..] || item.claims() != payload || !same(item.protected_header(), Some(h)) { return Err(format!("round trip differs b64={b64:?} detached={detached}")); }
        }
        // a recipient with the other payload encoding is refused
        let other = header(if b64.is_none() { Some(false) } else { None }, "k4");
        let e = GeneralJwsEncoder::new(payload, Recipient::new().protected(&h1), detached).unwrap();
        let i = e.signing_input().to_vec();
        if e.set_signature(&sig(&i)).add_recipient(Recipient::new().protected(&other)).is_ok() { return Err(format!("recipient with a different b64 accepted (first b64={b64:?})")); }
      }
    }
    Ok(())
  });
}
