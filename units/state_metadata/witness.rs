// Concrete witnesses for the `state_metadata` unit, run against the real crate (public API only).
use identity_core::common::{Object, Url};
use identity_did::DID;
use identity_document::service::Service;
use identity_iota_core::{IotaDID, IotaDocument, StateMetadataDocument};
use std::panic::catch_unwind;

fn w(name: &str, f: impl FnOnce() -> Result<(), String> + std::panic::UnwindSafe) {
  match catch_unwind(f) {
    Ok(Ok(())) => println!("WITNESS {name} OK"),
    Ok(Err(e)) => println!("WITNESS {name} FAIL {e}"),
    Err(_) => println!("WITNESS {name} FAIL panicked"),
  }
}
fn did(n: u8) -> IotaDID { IotaDID::parse(format!("did:iota:0x{}", format!("{n:02x}").repeat(32))).unwrap() }
fn doc_with_payload(id: &IotaDID, extra: usize) -> IotaDocument {
  let mut d = IotaDocument::new_with_id(id.clone());
  let svc = Service::builder(Object::new()).id(id.to_url().join("#s").unwrap()).type_("T")
    .service_endpoint(Url::parse(format!("https://example.com/{}", "a".repeat(extra))).unwrap()).build().unwrap();
  d.insert_service(svc).unwrap();
  d
}

fn main() {
  std::panic::set_hook(Box::new(|_| {}));
  w("sm_header_rejections", || {
    let id = did(1);
    let packed = doc_with_payload(&id, 3).pack().map_err(|e| e.to_string())?;
    if &packed[0..3] != b"DID" || packed[3] != 1 || packed[4] != 0 { return Err("unexpected header written".into()); }
    let n = packed[5] as usize + 256 * packed[6] as usize;
    if 7 + n != packed.len() { return Err(format!("length prefix {n} but {} payload bytes", packed.len() - 7)); }
    StateMetadataDocument::unpack(&packed).map_err(|e| format!("own output rejected: {e}"))?;
    for (i, name) in [(0usize, "marker[0]"), (1, "marker[1]"), (2, "marker[2]"), (3, "version"), (4, "encoding")] {
      let mut bad = packed.clone(); bad[i] ^= 0x01;
      if StateMetadataDocument::unpack(&bad).is_ok() { return Err(format!("accepted with wrong {name} byte")); }
    }
    for cut in 0..8 { if StateMetadataDocument::unpack(&packed[..cut]).is_ok() { return Err(format!("accepted a {cut}-byte prefix")); } }
    let mut longer = packed.clone(); longer[5] = longer[5].wrapping_add(1); if longer[5] == 0 { longer[6] += 1; }
    if StateMetadataDocument::unpack(&longer).is_ok() { return Err("accepted a length prefix exceeding the data".into()); }
    Ok(())
  });
  w("sm_trailing_bytes_ignored", || {
    let id = did(2);
    let packed = doc_with_payload(&id, 5).pack().map_err(|e| e.to_string())?;
    let a = StateMetadataDocument::unpack(&packed).map_err(|e| e.to_string())?;
    let mut more = packed.clone(); more.extend_from_slice(b"\x00garbage}}}");
    let b = StateMetadataDocument::unpack(&more).map_err(|e| format!("trailing bytes not ignored: {e}"))?;
    if a != b { return Err("trailing bytes changed the result".into()); }
    Ok(())
  });
  w("sm_too_large_fails_to_pack", || {
    let id = did(3);
    let base = doc_with_payload(&id, 0).pack().map_err(|e| e.to_string())?.len() - 7;
    for (total, ok) in [(65535usize, true), (65536, false), (65537, false), (70000, false)] {
      let d = doc_with_payload(&id, total - base);
      let r = d.pack();
      if let Ok(p) = &r { if p.len() - 7 != total { return Err(format!("test construction off: {}", p.len() - 7)); } }
      if r.is_ok() != ok { return Err(format!("payload of {total} bytes: pack ok = {}", r.is_ok())); }
      if let Ok(p) = r { if StateMetadataDocument::unpack(&p).is_err() { return Err(format!("own {total}-byte output rejected")); } }
    }
    Ok(())
  });
  w("sm_roundtrip_same_and_other_did", || {
    let a = did(4); let b = did(5);
    let d = doc_with_payload(&a, 2);
    let packed = d.clone().pack().map_err(|e| e.to_string())?;
    let back = StateMetadataDocument::unpack(&packed).map_err(|e| e.to_string())?.into_iota_document(&a).map_err(|e| e.to_string())?;
    if back.core_document() != d.core_document() { return Err("same-DID round trip differs".into()); }
    let moved = StateMetadataDocument::unpack(&packed).map_err(|e| e.to_string())?.into_iota_document(&b).map_err(|e| e.to_string())?;
    if moved.id() != &b || moved.core_document().service().iter().next().map(|s| s.id().did().as_str().to_owned()) != Some(b.as_str().to_owned()) { return Err("self-references not rewritten to the new DID".into()); }
    Ok(())
  });
  w("sm_every_collection_is_rebased_and_metadata_kept", || {
    use identity_core::convert::{FromJson, ToJson};
    use identity_iota_core::IotaDocumentMetadata;
    let a = did(6); let b = did(7); let foreign = "did:example:foreign".to_owned();
    let m = |did: &str, frag: &str| format!(r#"{{"id":"{did}#{frag}","controller":"{did}","type":"JsonWebKey","publicKeyJwk":{{"kty":"OKP","crv":"Ed25519","x":"11qYAYKxCrfVS_7TyWQHOg7hcvPapiMlrwIaaPcHURo"}}}}"#);
    let rels = ["authentication", "assertionMethod", "keyAgreement", "capabilityDelegation", "capabilityInvocation"];
    let body: Vec<String> = rels.iter().map(|r| format!(r#""{r}":[{},{}]"#, m(a.as_str(), &format!("e-{r}")), m(&foreign, &format!("f-{r}")))).collect();
    let json = format!(r#"{{"doc":{{"id":"{a}","controller":"{a}","verificationMethod":[{}],{}}},"meta":{{"created":"2022-01-01T00:00:00Z","updated":"2022-01-01T00:00:00Z","deactivated":false}}}}"#, m(a.as_str(), "gp"), body.join(","));
    let d = IotaDocument::from_json(&json).map_err(|e| format!("setup: {e}"))?;
    let packed = d.clone().pack().map_err(|e| e.to_string())?;
    let same = StateMetadataDocument::unpack(&packed).map_err(|e| e.to_string())?.into_iota_document(&a).map_err(|e| e.to_string())?;
    if same.core_document() != d.core_document() { return Err("same-DID round trip changes the document".into()); }
    if same.metadata.to_json().unwrap() != d.metadata.to_json().unwrap() { return Err(format!("same-DID round trip changes the metadata: {} -> {}", d.metadata.to_json().unwrap(), same.metadata.to_json().unwrap())); }
    if same.metadata != d.metadata { return Err(format!("same-DID round trip changes the metadata value: deactivated {:?} -> {:?}", d.metadata.deactivated, same.metadata.deactivated)); }
    let _ = IotaDocumentMetadata::default();
    let moved = StateMetadataDocument::unpack(&packed).map_err(|e| e.to_string())?.into_iota_document(&b).map_err(|e| e.to_string())?;
    let text = moved.core_document().to_json().unwrap();
    if text.contains(a.as_str()) { return Err(format!("unpacking for another DID leaves references to the original DID: {text}")); }
    for r in rels {
      if !text.contains(&format!("{b}#e-{r}")) { return Err(format!("embedded method of {r} not rewritten to the new DID")); }
      if !text.contains(&format!("{foreign}#f-{r}")) { return Err(format!("foreign method of {r} was touched")); }
    }
    Ok(())
  });
}
