// Concrete witnesses for the `jose_headers` unit, run against the real crate (public API only):
// a grid of protected/unprotected header pairs pushed through FlattenedJwsEncoder::new, compared with
// an oracle written from the property text (C11).
use identity_jose::jws::{FlattenedJwsEncoder, JwsHeader, Recipient};
use std::panic::catch_unwind;

fn w(name: &str, f: impl FnOnce() -> Result<(), String> + std::panic::UnwindSafe) {
  match catch_unwind(f) {
    Ok(Ok(())) => println!("WITNESS {name} OK"),
    Ok(Err(e)) => println!("WITNESS {name} FAIL {e}"),
    Err(_) => println!("WITNESS {name} FAIL panicked"),
  }
}

#[derive(Clone, Debug, Default)]
struct H { alg: bool, b64: Option<bool>, crit: Option<Vec<&'static str>>, kid: bool, custom: Vec<&'static str> }
const REGISTERED: &[&str] = &["alg","jku","jwk","kid","x5u","x5c","x5t","x5t#s256","typ","cty","crit","enc","zip","epk","apu","apv","iv","tag","p2s","p2c"];
impl H {
  fn json(&self) -> serde_json::Value {
    let mut m = serde_json::Map::new();
    if self.alg { m.insert("alg".into(), "EdDSA".into()); }
    if let Some(b) = self.b64 { m.insert("b64".into(), b.into()); }
    if let Some(c) = &self.crit { m.insert("crit".into(), c.iter().map(|s| s.to_string()).collect::<Vec<_>>().into()); }
    if self.kid { m.insert("kid".into(), "k1".into()); }
    for c in &self.custom { m.insert(c.to_string(), 1.into()); }
    m.into()
  }
  fn has(&self, n: &str) -> bool {
    match n { "alg" => self.alg, "b64" => self.b64.is_some(), "crit" => self.crit.is_some(), "kid" => self.kid, _ => self.custom.contains(&n) }
  }
  fn names(&self) -> Vec<String> {
    let mut v = vec![]; if self.alg { v.push("alg".into()) } if self.b64.is_some() { v.push("b64".into()) } if self.crit.is_some() { v.push("crit".into()) } if self.kid { v.push("kid".into()) }
    v.extend(self.custom.iter().map(|s| s.to_string())); v
  }
}
/// the property's rule set, written independently of the library
fn oracle(p: &Option<H>, u: &Option<H>) -> bool {
  if p.is_none() && u.is_none() { return false; } // JSON serialization needs at least one header
  if let Some(u) = u { if u.crit.is_some() || u.b64.is_some() { return false; } }
  if let (Some(p), Some(u)) = (p, u) { if p.names().iter().any(|n| u.names().contains(n)) { return false; } }
  if let Some(p) = p {
    if let Some(c) = &p.crit {
      if c.is_empty() { return false; }
      for n in c {
        if REGISTERED.contains(n) || *n != "b64" { return false; }
        if !(p.has(n) || u.as_ref().map(|u| u.has(n)).unwrap_or(false)) { return false; }
      }
    }
    if p.b64.is_some() && !p.crit.as_ref().map(|c| c.contains(&"b64")).unwrap_or(false) { return false; }
  }
  true
}

fn variants() -> Vec<Option<H>> {
  let mut v = vec![None];
  for alg in [false, true] { for b64 in [None, Some(true), Some(false)] {
    for crit in [None, Some(vec![]), Some(vec!["b64"]), Some(vec!["exp"]), Some(vec!["kid"]), Some(vec!["b64", "zzz"]), Some(vec!["zzz"])] {
      for kid in [false, true] { for custom in [vec![], vec!["zzz"], vec!["aaa", "zzz"]] {
        v.push(Some(H { alg, b64, crit: crit.clone(), kid, custom }));
  }}}}}
  v
}

fn main() {
  std::panic::set_hook(Box::new(|_| {}));
  w("jh_policy_grid", || {
    let vs = variants();
    let mut n = 0usize;
    for p in &vs { for u in &vs {
      let ph: Option<JwsHeader> = p.as_ref().map(|h| serde_json::from_value(h.json()).unwrap());
      let uh: Option<JwsHeader> = u.as_ref().map(|h| serde_json::from_value(h.json()).unwrap());
      let r = Recipient { protected: ph.as_ref(), unprotected: uh.as_ref() };
      let got = FlattenedJwsEncoder::new(b"{}", r, true).is_ok();
      let want = oracle(p, u);
      n += 1;
      if got != want { return Err(format!("protected={:?} unprotected={:?}: library accepts={got}, policy says {want}", p.as_ref().map(|h| h.json().to_string()), u.as_ref().map(|h| h.json().to_string()))); }
    }}
    if n < 1000 { return Err("grid too small".into()); }
    Ok(())
  });
}
