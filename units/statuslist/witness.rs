// Concrete witnesses for the `statuslist` unit, run against the real crate (public API only).
// Each prints `WITNESS <name> OK|FAIL <observed>`; a panic counts as FAIL.
use identity_credential::revocation::status_list_2021::StatusList2021;
use std::panic::catch_unwind;

fn w(name: &str, f: impl FnOnce() -> Result<(), String> + std::panic::UnwindSafe) {
  match catch_unwind(f) {
    Ok(Ok(())) => println!("WITNESS {name} OK"),
    Ok(Err(e)) => println!("WITNESS {name} FAIL {e}"),
    Err(_) => println!("WITNESS {name} FAIL panicked"),
  }
}

fn main() {
  std::panic::set_hook(Box::new(|_| {}));
  w("sl_clear_keeps_neighbour", || {
    let mut l = StatusList2021::default();
    l.set(0, true).unwrap();
    l.set(1, true).unwrap();
    l.set(1, false).unwrap();
    if l.get(0) == Ok(true) && l.get(1) == Ok(false) { Ok(()) } else { Err(format!("get(0)={:?} get(1)={:?}", l.get(0), l.get(1))) }
  });
  w("sl_clear_keeps_later_neighbour", || {
    let mut l = StatusList2021::default();
    l.set(9, true).unwrap();
    l.set(12, true).unwrap();
    l.set(12, false).unwrap();
    if l.get(9) == Ok(true) && l.get(12) == Ok(false) { Ok(()) } else { Err(format!("get(9)={:?} get(12)={:?}", l.get(9), l.get(12))) }
  });
  w("sl_get_len_is_error", || {
    let l = StatusList2021::default();
    match l.get(l.len()) { Err(_) => Ok(()), Ok(v) => Err(format!("get(len) = Ok({v})")) }
  });
  w("sl_set_then_get", || {
    let mut l = StatusList2021::default();
    for i in [0usize, 7, 8, 131071] {
      for v in [true, false, true] {
        l.set(i, v).map_err(|e| format!("{e}"))?;
        if l.get(i) != Ok(v) { return Err(format!("set({i},{v}) then get = {:?}", l.get(i))); }
      }
    }
    Ok(())
  });
}
