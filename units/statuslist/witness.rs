// Concrete witnesses for the `statuslist` unit, run against the real crate (public API only).
// Each prints `WITNESS <name> OK|FAIL <observed>`; a panic counts as FAIL.
use identity_credential::revocation::status_list_2021::StatusList2021;
use std::panic::catch_unwind;

fn w(name: &str, f: impl FnOnce() -> Result<(), String> + std::panic::UnwindSafe) {
  match catch_unwind(f) {
    Ok(Ok(())) => println!("WITNESS {name} OK"),
    Ok(Err(e)) => println!("WITNESS {name} FAIL {e}"),
    Err(_) => println!("WITNESS {name} FAIL panicked"),
  }
}

/// the credential-level operations (set_credential_status, update + MutStatusList::set_entry, entry) against a bit-vector model
fn credential_status_grid() -> Result<(), String> {
  use identity_core::common::Url;
  use identity_core::convert::{FromJson, ToJson};
  use identity_credential::credential::{Credential, Issuer, Subject};
  use identity_credential::revocation::status_list_2021::{CredentialStatus, StatusList2021Credential, StatusList2021CredentialBuilder, StatusList2021CredentialError, StatusPurpose};
  let list_id = "https://example.com/credentials/status#list";
  let subject_cred = || -> Credential { Credential::builder(Default::default()).issuer(Issuer::Url(Url::parse("https://example.com/issuer").unwrap())).subject(Subject::with_id(Url::parse("did:example:subject").unwrap())).build().unwrap() };
  for purpose in [StatusPurpose::Revocation, StatusPurpose::Suspension] {
    let mut slc: StatusList2021Credential = StatusList2021CredentialBuilder::new(StatusList2021::default()).purpose(purpose)
      .subject_id(Url::parse(list_id).unwrap()).issuer(Issuer::Url(Url::parse("https://example.com/issuer").unwrap())).build().map_err(|e| format!("build: {e}"))?;
    let n = StatusList2021::default().len();
    let mut model = vec![false; n];
    let on = |p: StatusPurpose| if p == StatusPurpose::Revocation { CredentialStatus::Revoked } else { CredentialStatus::Suspended };
    for (step, (idx, value)) in [(0usize, true), (1, true), (7, true), (8, true), (n - 1, true), (1, false), (8, false), (5, false), (n, true), (n + 7, false), (0, true)].into_iter().enumerate() {
      let mut c = subject_cred();
      let before_json = slc.to_json().map_err(|e| e.to_string())?;
      let r = slc.set_credential_status(&mut c, idx, value);
      let must_fail = idx >= n || (purpose == StatusPurpose::Revocation && !value && model[idx]);
      match r {
        Ok(entry) => {
          if must_fail { return Err(format!("{purpose:?} step {step}: set_credential_status({idx}, {value}) accepted")); }
          model[idx] = value;
          if entry.index() != idx || entry.purpose() != purpose || entry.status_list_credential().as_str() != list_id { return Err(format!("{purpose:?} step {step}: entry is {entry:?}")); }
          let status = c.credential_status.as_ref().ok_or("credential_status not set")?;
          let sj = status.to_json().map_err(|e| e.to_string())?;
          if !sj.contains(&format!("\"statusListIndex\":\"{idx}\"")) || !sj.contains(list_id) { return Err(format!("{purpose:?} step {step}: credential status is {sj}")); }
        }
        Err(e) => {
          if !must_fail { return Err(format!("{purpose:?} step {step}: set_credential_status({idx}, {value}) refused: {e}")); }
          if idx < n && !matches!(e, StatusList2021CredentialError::UnreversibleRevocation) { return Err(format!("{purpose:?} step {step}: wrong error {e}")); }
          if c.credential_status.is_some() || slc.to_json().map_err(|e| e.to_string())? != before_json { return Err(format!("{purpose:?} step {step}: refused operation changed the credential or the list")); }
        }
      }
      // every observed entry agrees with the model, out of range is an error, own JSON reads back equal
      for j in [0usize, 1, 2, 5, 6, 7, 8, 9, n - 2, n - 1] {
        let want = if model[j] { on(purpose) } else { CredentialStatus::Valid };
        match slc.entry(j) { Ok(s) if s == want => {}, other => return Err(format!("{purpose:?} step {step}: entry({j}) = {other:?}, model {want:?}")) }
      }
      if slc.entry(n).is_ok() { return Err("entry(len) is not an error".into()); }
      let back = StatusList2021Credential::from_json(&slc.to_json().map_err(|e| e.to_string())?).map_err(|e| format!("own JSON does not read back: {e}"))?;
      if back != slc { return Err("JSON round trip of the status list credential differs".into()); }
    }
    // the same through update + MutStatusList::set_entry; an error inside the closure leaves the list as it was
    let before = slc.to_json().map_err(|e| e.to_string())?;
    let r = slc.update(|l| { l.set_entry(2, true)?; l.set_entry(n, true) });
    if r.is_ok() || slc.to_json().map_err(|e| e.to_string())? != before { return Err(format!("{purpose:?}: failing update changed the list (or succeeded)")); }
    slc.update(|l| l.set_entry(2, true)).map_err(|e| e.to_string())?;
    if slc.entry(2).ok() != Some(on(purpose)) || slc.entry(3).ok() != Some(CredentialStatus::Valid) { return Err("update(set_entry(2)) not visible / touched a neighbour".into()); }
  }
  // no id: not referenceable (such a credential can only come from JSON; the builder insists on an id)
  let with_id = StatusList2021CredentialBuilder::new(StatusList2021::default()).subject_id(Url::parse(list_id).unwrap()).issuer(Issuer::Url(Url::parse("https://example.com/issuer").unwrap())).build().map_err(|e| e.to_string())?;
  let json = with_id.to_json().map_err(|e| e.to_string())?.replace(&format!("\"id\":\"{list_id}\","), "");
  if let Ok(mut anon) = StatusList2021Credential::from_json(&json) {
    if anon.id().is_none() {
      let mut c = subject_cred();
      match anon.set_credential_status(&mut c, 0, true) { Err(StatusList2021CredentialError::Unreferenceable) if c.credential_status.is_none() && anon.entry(0).ok() == Some(CredentialStatus::Valid) => {}, other => return Err(format!("status list credential without id: {other:?}")) }
    }
  }
  Ok(())
}

/// C05, bounded exhaustive + structured: junk at the base64 layer, the gzip layer and the list layer; an accepted list of any
/// length (0 bytes, 1 byte, not a multiple of anything) answers get / set / len without a panic and get(len) is an error
fn encoded_junk_never_panics() -> Result<(), String> {
  use std::io::Write;
  fn b64(b: &[u8]) -> String { identity_core::convert::BaseEncoding::encode(b, identity_core::convert::Base::Base64) }
  fn gz(b: &[u8]) -> Vec<u8> { let mut e = flate2::write::GzEncoder::new(Vec::new(), flate2::Compression::best()); e.write_all(b).unwrap(); e.finish().unwrap() }
  fn probe(what: String, text: String) -> Result<Option<usize>, String> {
    let w2 = what.clone();
    let r = catch_unwind(move || match StatusList2021::try_from_encoded_str(&text) {
      Ok(mut l) => {
        let n = l.len();
        let mut bad = None;
        for i in [0usize, 1, 7, 8, n.wrapping_sub(1), n, n + 1, usize::MAX] {
          let g = l.get(i);
          if g.is_ok() != (i < n) { bad = Some(format!("get({i}) on a list of {n} entries is {g:?}")); }
          let st = l.set(i, true);
          if st.is_ok() != (i < n) { bad = Some(format!("set({i}) on a list of {n} entries is {st:?}")); }
          if i < n && l.get(i) != Ok(true) { bad = Some(format!("set({i}, true) then get is {:?}", l.get(i))); }
        }
        let again = StatusList2021::try_from_encoded_str(&l.clone().into_encoded_str());
        if again.as_ref().ok() != Some(&l) { bad = Some("into_encoded_str / try_from_encoded_str does not give the list back".to_owned()); }
        (Some(n), bad)
      }
      Err(e) => { let _ = e.to_string(); (None, None) }
    }).map_err(|_| format!("StatusList2021 PANICS for {w2}"))?;
    if let Some(b) = r.1 { return Err(format!("{what}: {b}")); }
    Ok(r.0)
  }
  let mut n = 0u32;
  let alphabet = ['H', '4', 's', 'I', 'A', '=', '-', '_', '+', '/', ' ', 'é'];
  let mut cur: Vec<usize> = vec![];
  loop {
    let mut k = cur.len();
    loop {
      if k == 0 { cur = vec![0; cur.len() + 1]; break; }
      k -= 1;
      if cur[k] + 1 < alphabet.len() { cur[k] += 1; for j in k + 1..cur.len() { cur[j] = 0; } break; }
    }
    if cur.len() > 4 { break; }
    let t: String = cur.iter().map(|&i| alphabet[i]).collect();
    n += 1;
    probe(format!("text {t:?}"), t)?;
  }
  probe("empty text".into(), String::new())?;
  // every byte string of length <= 2 as the gzip stream, and as the content of a well-formed gzip stream
  for len in 0..=2usize { for v in 0..(1u32 << (8 * len)) {
    let bytes: Vec<u8> = (0..len).map(|i| (v >> (8 * i)) as u8).collect();
    if len < 2 || v % 5 == 0 { probe(format!("gzip stream {bytes:?}"), b64(&bytes))?; }
    if len < 2 || v % 5 == 0 { match probe(format!("list bytes {bytes:?}"), b64(&gz(&bytes)))? { Some(k) if k == 8 * len => {}, other => return Err(format!("list bytes {bytes:?} decoded to {other:?} entries")) } }
    n += 1;
  } }
  // a genuine list: truncated and bit-flipped at the gzip layer and the text layer
  let mut l = StatusList2021::default();
  for i in [0usize, 9, 77, 131071] { l.set(i, true).map_err(|e| e.to_string())?; }
  let enc = l.clone().into_encoded_str();
  if probe("genuine".into(), enc.clone())? != Some(l.len()) { return Err("genuine list refused or resized".into()); }
  let z = identity_core::convert::BaseEncoding::decode(&enc, identity_core::convert::Base::Base64).map_err(|e| e.to_string())?;
  for cut in 0..z.len() { probe(format!("gzip stream cut at {cut}"), b64(&z[..cut]))?; n += 1; }
  for i in 0..z.len() { for bit in 0..8 { let mut m = z.clone(); m[i] ^= 1 << bit; n += 1; probe(format!("gzip byte {i} bit {bit} flipped"), b64(&m))?; } }
  for cut in 0..enc.len() { probe(format!("text cut at {cut}"), enc[..cut].to_owned())?; n += 1; }
  for i in 0..enc.len() { for c in ['A', '/', '=', '-', '\u{e9}'] { let mut m: Vec<char> = enc.chars().collect(); m[i] = c; n += 1; probe(format!("text char {i} replaced by {c:?}"), m.into_iter().collect())?; } }
  // trailing garbage after the gzip member, two members, wrong header flags
  for extra in [&b"x"[..], &[0u8; 9][..], &z[..]] { let mut m = z.clone(); m.extend_from_slice(extra); n += 1; probe(format!("{} trailing bytes", extra.len()), b64(&m))?; }
  if n < 20_000 { return Err(format!("only {n} inputs")); }
  Ok(())
}

fn main() {
  std::panic::set_hook(Box::new(|_| {}));
  w("sl_encoded_junk_never_panics", encoded_junk_never_panics);
  w("sl_credential_status_grid", credential_status_grid);
  w("sl_clear_keeps_neighbour", || {
    let mut l = StatusList2021::default();
    l.set(0, true).unwrap();
    l.set(1, true).unwrap();
    l.set(1, false).unwrap();
    if l.get(0) == Ok(true) && l.get(1) == Ok(false) { Ok(()) } else { Err(format!("get(0)={:?} get(1)={:?}", l.get(0), l.get(1))) }
  });
  w("sl_clear_keeps_later_neighbour", || {
    let mut l = StatusList2021::default();
    l.set(9, true).unwrap();
    l.set(12, true).unwrap();
    l.set(12, false).unwrap();
    if l.get(9) == Ok(true) && l.get(12) == Ok(false) { Ok(()) } else { Err(format!("get(9)={:?} get(12)={:?}", l.get(9), l.get(12))) }
  });
  w("sl_get_len_is_error", || {
    let l = StatusList2021::default();
    match l.get(l.len()) { Err(_) => Ok(()), Ok(v) => Err(format!("get(len) = Ok({v})")) }
  });
  w("sl_set_then_get", || {
    let mut l = StatusList2021::default();
    for i in [0usize, 7, 8, 131071] {
      for v in [true, false, true] {
        l.set(i, v).map_err(|e| format!("{e}"))?;
        if l.get(i) != Ok(v) { return Err(format!("set({i},{v}) then get = {:?}", l.get(i))); }
      }
    }
    Ok(())
  });
}
