// In-crate Kani harnesses for status_list.rs (attached as a child module in a scratch copy).
use super::*;

/// Complete (loop-free, full domain): one stored byte, every offset, both values, every observed bit.
#[kani::proof]
fn sl_set_unchecked_byte_full_domain() {
  let b: u8 = kani::any();
  let off: usize = kani::any();
  kani::assume(off < 8);
  let v: bool = kani::any();
  let k: usize = kani::any();
  kani::assume(k < 8);
  let mut l = StatusList2021(vec![b].into_boxed_slice());
  let before = l.get_unchecked(k);
  l.set_unchecked(off, v);
  let after = l.get_unchecked(k);
  kani::cover!(k != off && before, "reachable: neighbour bit set");
  assert!(after == if k == off { v } else { before });
}
