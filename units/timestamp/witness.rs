// Concrete witnesses for the `timestamp` unit, run against the real crate (public API only).
use identity_core::common::{Duration, Timestamp};
use std::panic::catch_unwind;

fn w(name: &str, f: impl FnOnce() -> Result<(), String> + std::panic::UnwindSafe) {
  match catch_unwind(f) {
    Ok(Ok(())) => println!("WITNESS {name} OK"),
    Ok(Err(e)) => println!("WITNESS {name} FAIL {e}"),
    Err(_) => println!("WITNESS {name} FAIL panicked"),
  }
}
const MIN: i64 = -62167219200;
const MAX: i64 = 253402300799;

/// parse must fail or give an in-window value that formats
fn parse_total(s: &str) -> Result<(), String> {
  match Timestamp::parse(s) {
    Err(_) => Ok(()),
    Ok(t) => {
      let u = t.to_unix();
      if !(MIN..=MAX).contains(&u) { return Err(format!("accepted {s} with unix {u} outside 0000..9999")); }
      let f = t.to_rfc3339();
      match Timestamp::parse(&f) { Ok(t2) if t2 == t => Ok(()), other => Err(format!("format/parse of {s}: {f} -> {other:?}")) }
    }
  }
}

/// days since 1970-01-01 of a proleptic Gregorian civil date (Howard Hinnant's algorithm), written independently of `time`
fn days_from_civil(y: i64, m: i64, d: i64) -> i64 {
  let y = if m <= 2 { y - 1 } else { y };
  let era = if y >= 0 { y } else { y - 399 } / 400;
  let yoe = y - era * 400;
  let doy = (153 * (if m > 2 { m - 3 } else { m + 9 }) + 2) / 5 + d - 1;
  let doe = yoe * 365 + yoe / 4 - yoe / 100 + doy;
  era * 146097 + doe - 719468
}
fn days_in_month(y: i64, m: i64) -> i64 { match m { 1 | 3 | 5 | 7 | 8 | 10 | 12 => 31, 4 | 6 | 9 | 11 => 30, _ => if (y % 4 == 0 && y % 100 != 0) || y % 400 == 0 { 29 } else { 28 } } }
/// C13 as a BOUNDED grid: date-times at and around the ends of the range and the calendar's edges x offsets x fractions;
/// an accepted string denotes exactly the instant the reference computes (truncated to the second), lies in 0000..9999,
/// and round-trips through formatting and unix seconds; a string that does not denote a valid date-time is refused
fn rfc3339_grid() -> Result<(), String> {
  let years = [0i64, 1, 4, 1900, 1970, 2000, 2024, 9999];
  let months = [0i64, 1, 2, 12, 13];
  let days = [0i64, 1, 28, 29, 30, 31, 32];
  let times = [(0i64, 0i64, 0i64), (23, 59, 59), (12, 30, 15), (24, 0, 0), (23, 60, 0), (23, 59, 60), (0, 0, 1)];
  let fractions = ["", ".0", ".5", ".999999999", ".123456789012", "."];
  let offsets: [(&str, Option<i64>); 12] = [("Z", Some(0)), ("z", Some(0)), ("+00:00", Some(0)), ("-00:00", Some(0)), ("+00:01", Some(60)), ("-00:01", Some(-60)),
    ("+23:59", Some(86340)), ("-23:59", Some(-86340)), ("+24:00", None), ("+01", None), ("", None), ("+01:60", None)];
  let mut n = 0u32;
  for &y in &years { for &mo in &months { for &d in &days { for &(h, mi, sec) in &times { for fr in fractions { for (off, off_s) in offsets {
    let text = format!("{y:04}-{mo:02}-{d:02}T{h:02}:{mi:02}:{sec:02}{fr}{off}");
    n += 1;
    let valid_date = (1..=12).contains(&mo) && d >= 1 && d <= days_in_month(y, mo.clamp(1, 12));
    // `time` takes no leap second except 23:59:60 handling; the property speaks of the instant denoted: treat :60 as outside the grammar accepted
    let leap = sec == 60 && mi == 59;   // RFC 3339 admits a leap second; `time` takes it in some positions and reads it as :59
    let valid_time = h <= 23 && mi <= 59 && sec <= 59;
    let valid = valid_date && valid_time && fr != "." && off_s.is_some();
    let got = catch_unwind(|| Timestamp::parse(&text)).map_err(|_| format!("parse({text}) PANICS"))?;
    if leap {
      if let Ok(t) = got {
        let base = days_from_civil(y, mo, d) * 86400 + h * 3600 + mi * 60 + 59 - off_s.unwrap_or(0);
        if !valid_date || h > 23 || off_s.is_none() || fr == "." { return Err(format!("parse({text}) accepted")); }
        if t.to_unix() != base && t.to_unix() != base + 1 { return Err(format!("parse({text}) = unix {}, expected {base} or {}", t.to_unix(), base + 1)); }
        if !(MIN..=MAX).contains(&t.to_unix()) { return Err(format!("parse({text}) accepted outside 0000..9999")); }
      }
      continue;
    }
    match got {
      Err(_) => {
        // refusing a valid string is allowed only when the denoted instant leaves 0000..9999
        if valid {
          let unix = days_from_civil(y, mo, d) * 86400 + h * 3600 + mi * 60 + sec - off_s.unwrap();
          if (MIN..=MAX).contains(&unix) { return Err(format!("parse({text}) refused although it denotes unix {unix} inside the range")); }
        }
      }
      Ok(t) => {
        if !valid { return Err(format!("parse({text}) accepted although it is not a valid RFC 3339 date-time in the accepted profile")); }
        let unix = days_from_civil(y, mo, d) * 86400 + h * 3600 + mi * 60 + sec - off_s.unwrap();
        if t.to_unix() != unix { return Err(format!("parse({text}) = unix {}, the string denotes {unix}", t.to_unix())); }
        if !(MIN..=MAX).contains(&unix) { return Err(format!("parse({text}) accepted outside 0000..9999")); }
        let f = t.to_rfc3339();
        if Timestamp::parse(&f).ok() != Some(t) || Timestamp::from_unix(unix).ok() != Some(t) { return Err(format!("round trip of {text} through {f} / unix {unix}")); }
        if !f.ends_with('Z') || f.contains('.') { return Err(format!("{text} formats as {f}")); }
      }
    }
  } } } } } }
  if n < 100_000 { return Err(format!("only {n} strings")); }
  Ok(())
}

fn main() {
  std::panic::set_hook(Box::new(|_| {}));
  w("ts_rfc3339_grid_against_reference", rfc3339_grid);
  w("ts_parse_year0_positive_offset", || parse_total("0000-01-01T00:00:00+00:01"));
  w("ts_parse_year9999_negative_offset", || parse_total("9999-12-31T23:59:59-00:01"));
  w("ts_parse_boundaries", || { for s in ["0000-01-01T00:00:00Z", "9999-12-31T23:59:59Z", "9999-12-31T23:59:59.999999999Z", "0000-01-01T23:59:00+23:59", "9999-12-31T00:00:00-23:59", "2020-02-29T12:00:00.5+05:30"] { parse_total(s)?; } Ok(()) });
  w("ts_parse_truncates", || {
    let t = Timestamp::parse("2020-01-01T00:00:00.999999999+01:00").map_err(|e| e.to_string())?;
    if t.to_unix() != 1577833200 { return Err(format!("unix {}", t.to_unix())); }
    for s in ["2020-01-01T00:00:00.999999999+01:00", "1980-01-01T12:34:56.7891Z", "1937-01-01T12:00:27.000001+00:20"] {
      let t = Timestamp::parse(s).map_err(|e| e.to_string())?;
      let canon = Timestamp::from_unix(t.to_unix()).map_err(|e| e.to_string())?;
      if t != canon || t.to_rfc3339() != canon.to_rfc3339() { return Err(format!("parse({s}) = {} is not a whole-second instant ({})", t.to_rfc3339(), canon.to_rfc3339())); }
    }
    Ok(())
  });
  w("ts_from_unix_window", || {
    for (s, ok) in [(MIN, true), (MAX, true), (MIN - 1, false), (MAX + 1, false), (0, true), (i64::MAX, false), (i64::MIN, false)] {
      let r = Timestamp::from_unix(s);
      if r.is_ok() != ok { return Err(format!("from_unix({s}) ok={}", r.is_ok())); }
      if let Ok(t) = r { if t.to_unix() != s { return Err(format!("to_unix(from_unix({s})) = {}", t.to_unix())); } let _ = t.to_rfc3339(); }
    }
    Ok(())
  });
  w("ts_checked_add_window", || {
    let t = Timestamp::from_unix(MAX - 10).unwrap();
    if t.checked_add(Duration::seconds(10)).map(|x| x.to_unix()) != Some(MAX) { return Err("MAX-10 + 10".into()); }
    if t.checked_add(Duration::seconds(11)).is_some() { return Err("MAX-10 + 11 accepted".into()); }
    let t = Timestamp::from_unix(MIN + 10).unwrap();
    if t.checked_sub(Duration::seconds(10)).map(|x| x.to_unix()) != Some(MIN) { return Err("MIN+10 - 10".into()); }
    if t.checked_sub(Duration::seconds(11)).is_some() { return Err("MIN+10 - 11 accepted".into()); }
    if t.checked_add(Duration::weeks(u32::MAX)).is_some() { return Err("huge add accepted".into()); }
    Ok(())
  });
}
