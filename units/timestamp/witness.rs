// Concrete witnesses for the `timestamp` unit, run against the real crate (public API only).
use identity_core::common::{Duration, Timestamp};
use std::panic::catch_unwind;

fn w(name: &str, f: impl FnOnce() -> Result<(), String> + std::panic::UnwindSafe) {
  match catch_unwind(f) {
    Ok(Ok(())) => println!("WITNESS {name} OK"),
    Ok(Err(e)) => println!("WITNESS {name} FAIL {e}"),
    Err(_) => println!("WITNESS {name} FAIL panicked"),
  }
}
const MIN: i64 = -62167219200;
const MAX: i64 = 253402300799;

/// parse must fail or give an in-window value that formats
fn parse_total(s: &str) -> Result<(), String> {
  match Timestamp::parse(s) {
    Err(_) => Ok(()),
    Ok(t) => {
      let u = t.to_unix();
      if !(MIN..=MAX).contains(&u) { return Err(format!("accepted {s} with unix {u} outside 0000..9999")); }
      let f = t.to_rfc3339();
      match Timestamp::parse(&f) { Ok(t2) if t2 == t => Ok(()), other => Err(format!("format/parse of {s}: {f} -> {other:?}")) }
    }
  }
}

fn main() {
  std::panic::set_hook(Box::new(|_| {}));
  w("ts_parse_year0_positive_offset", || parse_total("0000-01-01T00:00:00+00:01"));
  w("ts_parse_year9999_negative_offset", || parse_total("9999-12-31T23:59:59-00:01"));
  w("ts_parse_boundaries", || { for s in ["0000-01-01T00:00:00Z", "9999-12-31T23:59:59Z", "9999-12-31T23:59:59.999999999Z", "0000-01-01T23:59:00+23:59", "9999-12-31T00:00:00-23:59", "2020-02-29T12:00:00.5+05:30"] { parse_total(s)?; } Ok(()) });
  w("ts_parse_truncates", || {
    let t = Timestamp::parse("2020-01-01T00:00:00.999999999+01:00").map_err(|e| e.to_string())?;
    if t.to_unix() != 1577833200 { return Err(format!("unix {}", t.to_unix())); }
    for s in ["2020-01-01T00:00:00.999999999+01:00", "1980-01-01T12:34:56.7891Z", "1937-01-01T12:00:27.000001+00:20"] {
      let t = Timestamp::parse(s).map_err(|e| e.to_string())?;
      let canon = Timestamp::from_unix(t.to_unix()).map_err(|e| e.to_string())?;
      if t != canon || t.to_rfc3339() != canon.to_rfc3339() { return Err(format!("parse({s}) = {} is not a whole-second instant ({})", t.to_rfc3339(), canon.to_rfc3339())); }
    }
    Ok(())
  });
  w("ts_from_unix_window", || {
    for (s, ok) in [(MIN, true), (MAX, true), (MIN - 1, false), (MAX + 1, false), (0, true), (i64::MAX, false), (i64::MIN, false)] {
      let r = Timestamp::from_unix(s);
      if r.is_ok() != ok { return Err(format!("from_unix({s}) ok={}", r.is_ok())); }
      if let Ok(t) = r { if t.to_unix() != s { return Err(format!("to_unix(from_unix({s})) = {}", t.to_unix())); } let _ = t.to_rfc3339(); }
    }
    Ok(())
  });
  w("ts_checked_add_window", || {
    let t = Timestamp::from_unix(MAX - 10).unwrap();
    if t.checked_add(Duration::seconds(10)).map(|x| x.to_unix()) != Some(MAX) { return Err("MAX-10 + 10".into()); }
    if t.checked_add(Duration::seconds(11)).is_some() { return Err("MAX-10 + 11 accepted".into()); }
    let t = Timestamp::from_unix(MIN + 10).unwrap();
    if t.checked_sub(Duration::seconds(10)).map(|x| x.to_unix()) != Some(MIN) { return Err("MIN+10 - 10".into()); }
    if t.checked_sub(Duration::seconds(11)).is_some() { return Err("MIN+10 - 11 accepted".into()); }
    if t.checked_add(Duration::weeks(u32::MAX)).is_some() { return Err("huge add accepted".into()); }
    Ok(())
  });
}
