// Concrete witnesses for the `core_document` unit, run against the real crate (public API only).
use identity_core::convert::FromJson;
use identity_did::DIDUrl;
use identity_document::document::CoreDocument;
use identity_document::verifiable::JwsVerificationOptions;
use identity_verification::jwk::Jwk;
use identity_verification::jws::{JwsVerifierFn, SignatureVerificationError, VerificationInput};
use identity_verification::jwu::encode_b64;
use identity_verification::{MethodRelationship, MethodScope};
use std::panic::catch_unwind;

fn w(name: &str, f: impl FnOnce() -> Result<(), String> + std::panic::UnwindSafe) {
  match catch_unwind(f) {
    Ok(Ok(())) => println!("WITNESS {name} OK"),
    Ok(Err(e)) => println!("WITNESS {name} FAIL {e}"),
    Err(_) => println!("WITNESS {name} FAIL panicked"),
  }
}
const RELS: [(MethodRelationship, &str); 5] = [
  (MethodRelationship::Authentication, "authentication"), (MethodRelationship::AssertionMethod, "assertionMethod"),
  (MethodRelationship::KeyAgreement, "keyAgreement"), (MethodRelationship::CapabilityDelegation, "capabilityDelegation"),
  (MethodRelationship::CapabilityInvocation, "capabilityInvocation")];
fn jwk_method(did: &str, frag: &str) -> String {
  format!(r#"{{"id":"{did}#{frag}","controller":"{did}","type":"JsonWebKey","publicKeyJwk":{{"kty":"OKP","crv":"Ed25519","x":"11qYAYKxCrfVS_7TyWQHOg7hcvPapiMlrwIaaPcHURo"}}}}"#)
}
/// a document with one general-purpose method `gp` and one embedded method `e-<rel>` per relationship
fn doc() -> CoreDocument {
  let did = "did:example:doc";
  let rels: Vec<String> = RELS.iter().map(|(_, n)| format!(r#""{n}":[{}]"#, jwk_method(did, &format!("e-{n}")))).collect();
  CoreDocument::from_json(&format!(r#"{{"id":"{did}","verificationMethod":[{}],{}}}"#, jwk_method(did, "gp"), rels.join(","))).unwrap()
}

fn main() {
  std::panic::set_hook(Box::new(|_| {}));
  w("cd_resolve_scope_exact", || {
    let d = doc();
    for (rel, name) in RELS { for (rel2, name2) in RELS {
      let found = d.resolve_method(format!("#e-{name}").as_str(), Some(MethodScope::VerificationRelationship(rel2))).is_some();
      if found != (rel == rel2) { return Err(format!("method embedded under {name} resolved under scope {name2}: {found}")); }
    }}
    if d.resolve_method("#gp", Some(MethodScope::VerificationMethod)).is_none() { return Err("general-purpose method not found in its scope".into()); }
    if d.resolve_method("#e-authentication", Some(MethodScope::VerificationMethod)).is_some() { return Err("embedded method found under VerificationMethod scope".into()); }
    for (_, name) in RELS { if d.resolve_method(format!("did:example:doc#e-{name}").as_str(), None).map(|m| m.id().to_string()) != Some(format!("did:example:doc#e-{name}")) { return Err(format!("unscoped resolution of e-{name}")); } }
    if d.resolve_method("did:example:other#gp", None).is_some() { return Err("a full id of another DID with the same fragment resolved".into()); }
    Ok(())
  });
  w("cd_insert_method_scope_exact", || {
    use identity_core::convert::ToJson;
    use identity_verification::VerificationMethod;
    let mk = |frag: &str| VerificationMethod::from_json(&jwk_method("did:example:doc", frag)).unwrap();
    let scopes: Vec<(MethodScope, &str)> = std::iter::once((MethodScope::VerificationMethod, "verificationMethod")).chain(RELS.iter().map(|(r, n)| (MethodScope::VerificationRelationship(*r), *n))).collect();
    for (scope, name) in &scopes {
      let mut d = doc();
      let before: serde_json::Value = serde_json::from_str(&d.to_json().unwrap()).unwrap();
      d.insert_method(mk("new"), *scope).map_err(|e| format!("insert under {name}: {e}"))?;
      let after: serde_json::Value = serde_json::from_str(&d.to_json().unwrap()).unwrap();
      for (_, other) in &scopes {
        let (b, a) = (before[other].as_array().map(|x| x.len()).unwrap_or(0), after[other].as_array().map(|x| x.len()).unwrap_or(0));
        if a != b + (other == name) as usize { return Err(format!("insert_method(.., {name}): collection {other} went from {b} to {a} entries")); }
      }
      if d.resolve_method("#new", Some(*scope)).is_none() { return Err(format!("method inserted under {name} does not resolve under that scope")); }
      // a second insertion of the same id, under any scope, is refused and changes nothing
      for (scope2, name2) in &scopes {
        let snap = d.to_json().unwrap();
        if d.insert_method(mk("new"), *scope2).is_ok() { return Err(format!("duplicate id accepted under {name2}")); }
        if d.to_json().unwrap() != snap { return Err(format!("refused insertion under {name2} changed the document")); }
      }
    }
    Ok(())
  });
  w("cd_id_constraints_at_deserialisation", || {
    let did = "did:example:doc";
    let svc = |frag: &str| format!(r#"{{"id":"{did}#{frag}","type":"X","serviceEndpoint":"https://example.com/"}}"#);
    let cases: Vec<(String, bool, &str)> = vec![
      (format!(r#"{{"id":"{did}","verificationMethod":[{}],"service":[{}]}}"#, jwk_method(did, "a"), svc("s")), true, "method and service with different ids"),
      (format!(r#"{{"id":"{did}","verificationMethod":[{}],"service":[{}]}}"#, jwk_method(did, "a"), svc("a")), false, "service id equal to a general-purpose method id"),
      (format!(r#"{{"id":"{did}","authentication":[{}],"service":[{}]}}"#, jwk_method(did, "a"), svc("a")), false, "service id equal to an embedded method id"),
      (format!(r#"{{"id":"{did}","authentication":[{}],"assertionMethod":[{}]}}"#, jwk_method(did, "a"), jwk_method(did, "a")), false, "the same id embedded under two relationships"),
      (format!(r#"{{"id":"{did}","authentication":[{}],"assertionMethod":["{did}#a"]}}"#, jwk_method(did, "a")), false, "a reference to an embedded method"),
      (format!(r#"{{"id":"{did}","verificationMethod":[{}],"authentication":[{}]}}"#, jwk_method(did, "a"), jwk_method(did, "a")), false, "a general-purpose method id also embedded"),
      (format!(r#"{{"id":"{did}","verificationMethod":[{}],"authentication":["{did}#a"],"assertionMethod":["{did}#a"]}}"#, jwk_method(did, "a")), true, "references to a general-purpose method from two relationships"),
      (format!(r#"{{"id":"{did}","verificationMethod":[{},{}]}}"#, jwk_method(did, "a"), jwk_method(did, "a")), false, "two general-purpose methods with one id"),
      (format!(r#"{{"id":"{did}","service":[{},{}]}}"#, svc("s"), svc("s")), false, "two services with one id"),
    ];
    for (json, want, what) in cases {
      let got = CoreDocument::from_json(&json).is_ok();
      if got != want { return Err(format!("{what}: accepted={got}, expected={want}")); }
    }
    Ok(())
  });
  w("cd_insert_after_dangling_reference_keeps_invariant", || {
    use identity_core::convert::ToJson;
    use identity_verification::VerificationMethod;
    let did = "did:example:doc";
    let mk = |frag: &str| VerificationMethod::from_json(&jwk_method(did, frag)).unwrap();
    // an accepted starting document with a relationship reference whose target is not (yet) in the document
    let start = format!(r#"{{"id":"{did}","authentication":["{did}#x"]}}"#);
    for (scope, name) in [(MethodScope::VerificationRelationship(MethodRelationship::AssertionMethod), "assertionMethod"), (MethodScope::VerificationRelationship(MethodRelationship::Authentication), "authentication"), (MethodScope::VerificationMethod, "verificationMethod")] {
      // a service must not take the id of a referenced method either
      if let Ok(mut ds) = CoreDocument::from_json(&start) {
        use identity_document::service::Service;
        let svc = Service::from_json(&format!(r#"{{"id":"{did}#x","type":"X","serviceEndpoint":"https://example.com/"}}"#)).unwrap();
        let r = ds.insert_service(svc);
        let json = ds.to_json().unwrap();
        if CoreDocument::from_json(&json).is_err() { return Err(format!("after insert_service(#x) [{}] next to a reference #x the document no longer deserialises", if r.is_ok() { "accepted" } else { "refused" })); }
      }
      let mut d = match CoreDocument::from_json(&start) { Ok(d) => d, Err(_) => return Ok(()) };
      let r = d.insert_method(mk("x"), scope);
      let json = d.to_json().unwrap();
      match CoreDocument::from_json(&json) {
        Ok(back) => { if back != d { return Err(format!("after insert_method(#x, {name}) [{}] the document does not round-trip to an equal document", if r.is_ok() { "accepted" } else { "refused" })); } }
        Err(e) => return Err(format!("after insert_method(#x, {name}) [{}] the document no longer deserialises: {e}; json = {json}", if r.is_ok() { "accepted" } else { "refused" })),
      }
    }
    Ok(())
  });
  w("cd_reference_resolves_to_the_referenced_method", || {
    // two general-purpose methods with the same fragment under different DIDs; the relationship references the SECOND one
    let (a, b) = ("did:example:doc", "did:example:other");
    let json = format!(r#"{{"id":"{a}","verificationMethod":[{},{}],"authentication":["{b}#k"]}}"#, jwk_method(a, "k"), jwk_method(b, "k"));
    let d = match CoreDocument::from_json(&json) { Ok(d) => d, Err(e) => return Err(format!("setup rejected: {e}")) };
    let m = d.resolve_method(&DIDUrl::parse(format!("{b}#k")).unwrap(), Some(MethodScope::VerificationRelationship(MethodRelationship::Authentication))).ok_or("reference does not resolve under its relationship")?;
    if m.id().to_string() != format!("{b}#k") { return Err(format!("reference to {b}#k resolves to {}", m.id())); }
    Ok(())
  });
  w("cd_attach_detach_exact", || {
    for (rel, name) in RELS { for (rel2, name2) in RELS {
      let mut d = doc();
      if d.attach_method_relationship("#gp", rel).map_err(|e| e.to_string())? != true { return Err("attach returned false".into()); }
      let before = d.clone();
      let r = d.detach_method_relationship("#gp", rel2).map_err(|e| e.to_string())?;
      if r != (rel == rel2) { return Err(format!("attached under {name}, detach from {name2} returned {r}")); }
      if rel != rel2 && d != before { return Err(format!("attached under {name}: a no-op detach from {name2} changed the document")); }
      if rel == rel2 && d != doc() { return Err(format!("attach+detach under {name} does not restore the document")); }
      let still = d.resolve_method("#gp", Some(MethodScope::VerificationRelationship(rel))).is_some();
      if still != (rel != rel2) { return Err(format!("after detach from {name2}, reference under {name} resolves: {still}")); }
    }}
    let mut d = doc();
    if d.attach_method_relationship("#e-authentication", MethodRelationship::KeyAgreement).is_ok() || d != doc() { return Err("attaching an embedded method accepted or changed the document".into()); }
    if d.attach_method_relationship("#nope", MethodRelationship::KeyAgreement).is_ok() || d != doc() { return Err("attaching an unknown method accepted or changed the document".into()); }
    Ok(())
  });
  w("cd_verify_jws_nonce_and_scope", || {
    let d = doc();
    let accept_all = JwsVerifierFn::from(|_i: VerificationInput, _k: &Jwk| -> Result<(), SignatureVerificationError> { Ok(()) });
    let tok = |hdr: &str| format!("{}.{}.{}", encode_b64(hdr), encode_b64("{}"), encode_b64([1u8; 64]));
    let no_nonce = tok(r#"{"alg":"EdDSA","kid":"did:example:doc#e-authentication"}"#);
    let with_nonce = tok(r#"{"alg":"EdDSA","kid":"did:example:doc#e-authentication","nonce":"n1"}"#);
    let v = |t: &str, o: &JwsVerificationOptions| d.verify_jws(t, None, &accept_all, o).is_ok();
    if !v(&no_nonce, &JwsVerificationOptions::default()) { return Err("plain token rejected".into()); }
    if v(&no_nonce, &JwsVerificationOptions::default().nonce("n1")) { return Err("token without nonce accepted although a nonce is required".into()); }
    if v(&with_nonce, &JwsVerificationOptions::default()) { return Err("token with nonce accepted although none is configured".into()); }
    if v(&with_nonce, &JwsVerificationOptions::default().nonce("n2")) { return Err("wrong nonce accepted".into()); }
    if !v(&with_nonce, &JwsVerificationOptions::default().nonce("n1")) { return Err("matching nonce rejected".into()); }
    for (rel, name) in RELS {
      let ok = v(&no_nonce, &JwsVerificationOptions::default().method_scope(MethodScope::VerificationRelationship(rel)));
      if ok != (rel == MethodRelationship::Authentication) { return Err(format!("token of an authentication-only method verified under scope {name}: {ok}")); }
    }
    let other = DIDUrl::parse("did:example:doc#e-keyAgreement").unwrap();
    if !v(&no_nonce, &JwsVerificationOptions::default().method_id(other)) { return Err("configured method id not used".into()); }
    Ok(())
  });
}
