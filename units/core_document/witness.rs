// Concrete witnesses for the `core_document` unit, run against the real crate (public API only).
use identity_core::convert::FromJson;
use identity_did::DIDUrl;
use identity_document::document::CoreDocument;
use identity_document::verifiable::JwsVerificationOptions;
use identity_verification::jwk::Jwk;
use identity_verification::jws::{JwsVerifierFn, SignatureVerificationError, VerificationInput};
use identity_verification::jwu::encode_b64;
use identity_verification::{MethodRelationship, MethodScope};
use std::panic::catch_unwind;

fn w(name: &str, f: impl FnOnce() -> Result<(), String> + std::panic::UnwindSafe) {
  match catch_unwind(f) {
    Ok(Ok(())) => println!("WITNESS {name} OK"),
    Ok(Err(e)) => println!("WITNESS {name} FAIL {e}"),
    Err(_) => println!("WITNESS {name} FAIL panicked"),
  }
}
const RELS: [(MethodRelationship, &str); 5] = [
  (MethodRelationship::Authentication, "authentication"), (MethodRelationship::AssertionMethod, "assertionMethod"),
  (MethodRelationship::KeyAgreement, "keyAgreement"), (MethodRelationship::CapabilityDelegation, "capabilityDelegation"),
  (MethodRelationship::CapabilityInvocation, "capabilityInvocation")];
fn jwk_method(did: &str, frag: &str) -> String {
  format!(r#"{{"id":"{did}#{frag}","controller":"{did}","type":"JsonWebKey","publicKeyJwk":{{"kty":"OKP","crv":"Ed25519","x":"11qYAYKxCrfVS_7TyWQHOg7hcvPapiMlrwIaaPcHURo"}}}}"#)
}
/// a document with one general-purpose method `gp` and one embedded method `e-<rel>` per relationship
fn doc() -> CoreDocument {
  let did = "did:example:doc";
  let rels: Vec<String> = RELS.iter().map(|(_, n)| format!(r#""{n}":[{}]"#, jwk_method(did, &format!("e-{n}")))).collect();
  CoreDocument::from_json(&format!(r#"{{"id":"{did}","verificationMethod":[{}],{}}}"#, jwk_method(did, "gp"), rels.join(","))).unwrap()
}

// ------------------------------------------------------------------------------------------------
// C04 as a BOUNDED exhaustive check: every sequence of up to 4 checked mutations over a small universe, from three
// starting documents, against an abstract set-of-entries model written independently of the code
// ------------------------------------------------------------------------------------------------
#[derive(Clone, PartialEq, Debug)]
struct Model {
  /// general-purpose methods (fragments)
  gp: Vec<String>,
  /// per relationship (index into RELS2): entries (fragment, embedded?)
  rel: [Vec<(String, bool)>; 2],
  services: Vec<String>,
}
const RELS2: [MethodRelationship; 2] = [MethodRelationship::Authentication, MethodRelationship::KeyAgreement];
const DID: &str = "did:example:doc";
const FRAGS: [&str; 2] = ["a", "b"];
#[derive(Clone, Copy, Debug)]
enum Op { InsGp(usize), InsEmb(usize, usize), Rem(usize), Attach(usize, usize), Detach(usize, usize), InsSvc(usize), RemSvc(usize) }
fn all_ops() -> Vec<Op> {
  let mut v = vec![];
  for f in 0..FRAGS.len() { v.push(Op::InsGp(f)); v.push(Op::Rem(f)); v.push(Op::InsSvc(f)); v.push(Op::RemSvc(f));
    for r in 0..RELS2.len() { v.push(Op::InsEmb(f, r)); v.push(Op::Attach(f, r)); v.push(Op::Detach(f, r)); } }
  v
}
impl Model {
  fn mentions(&self, f: &str) -> bool { self.gp.iter().any(|x| x == f) || self.rel.iter().any(|r| r.iter().any(|(x, _)| x == f)) }
  fn is_embedded(&self, f: &str) -> bool { self.rel.iter().any(|r| r.iter().any(|(x, e)| x == f && *e)) }
  /// the abstract meaning of each checked mutation: Some(new model) when it must be accepted, None when it must be refused
  fn apply(&self, op: Op) -> Option<Model> {
    let mut m = self.clone();
    match op {
      Op::InsGp(f) => { let f = FRAGS[f]; if self.mentions(f) || self.services.iter().any(|x| x == f) { return None; } m.gp.push(f.into()); }
      Op::InsEmb(f, r) => { let f = FRAGS[f]; if self.mentions(f) || self.services.iter().any(|x| x == f) { return None; } m.rel[r].push((f.into(), true)); }
      Op::Rem(f) => { let f = FRAGS[f]; if !self.mentions(f) { return None; } m.gp.retain(|x| x != f); for r in m.rel.iter_mut() { r.retain(|(x, _)| x != f); } }
      Op::Attach(f, r) => { let f = FRAGS[f]; if !self.gp.iter().any(|x| x == f) { return None; } if !m.rel[r].iter().any(|(x, _)| x == f) { m.rel[r].push((f.into(), false)); } }
      Op::Detach(f, r) => { let f = FRAGS[f]; if self.is_embedded(f) || !self.mentions(f) { return None; } m.rel[r].retain(|(x, _)| x != f); }
      Op::InsSvc(f) => { let f = FRAGS[f]; if self.mentions(f) || self.services.iter().any(|x| x == f) { return None; } m.services.push(f.into()); }
      Op::RemSvc(f) => { let f = FRAGS[f]; if !self.services.iter().any(|x| x == f) { return None; } m.services.retain(|x| x != f); }
    }
    Some(m)
  }
}
fn vm(frag: &str) -> identity_verification::VerificationMethod { identity_verification::VerificationMethod::from_json(&jwk_method(DID, frag)).unwrap() }
fn svc(frag: &str) -> identity_document::service::Service {
  identity_document::service::Service::from_json(&format!(r#"{{"id":"{DID}#{frag}","type":"T","serviceEndpoint":"https://example.com/"}}"#)).unwrap()
}
fn url(frag: &str) -> DIDUrl { DIDUrl::parse(format!("{DID}#{frag}")).unwrap() }
/// what the real document holds, read through its public accessors, in the model's terms
fn observe(d: &CoreDocument) -> Model {
  let frag = |u: &DIDUrl| u.fragment().unwrap_or("").to_owned();
  let rel = |r: MethodRelationship| -> Vec<(String, bool)> {
    let set = match r { MethodRelationship::Authentication => d.authentication(), _ => d.key_agreement() };
    set.iter().map(|m| (frag(m.id()), matches!(m, identity_verification::MethodRef::Embed(_)))).collect()
  };
  Model { gp: d.verification_method().iter().map(|m| frag(m.id())).collect(), rel: [rel(RELS2[0]), rel(RELS2[1])], services: d.service().iter().map(|s| frag(s.id())).collect() }
}
fn same_entries(a: &Model, b: &Model) -> bool {
  let sort = |v: &Vec<String>| { let mut v = v.clone(); v.sort(); v };
  let sortp = |v: &Vec<(String, bool)>| { let mut v = v.clone(); v.sort(); v };
  sort(&a.gp) == sort(&b.gp) && sort(&a.services) == sort(&b.services) && (0..2).all(|i| sortp(&a.rel[i]) == sortp(&b.rel[i]))
}
/// the three clauses of the invariant, on the observed entries
fn invariant(m: &Model) -> Result<(), String> {
  let mut embedded: Vec<&String> = m.rel.iter().flat_map(|r| r.iter().filter(|(_, e)| *e).map(|(f, _)| f)).collect();
  let n = embedded.len(); embedded.sort(); embedded.dedup();
  if embedded.len() != n { return Err(format!("two embedded methods with one id: {m:?}")); }
  for r in &m.rel { for (f, e) in r { if !*e && embedded.contains(&f) { return Err(format!("a reference aliases the embedded method #{f}: {m:?}")); } } }
  let mut gp = m.gp.clone(); gp.sort(); gp.dedup(); if gp.len() != m.gp.len() { return Err(format!("two general-purpose methods with one id: {m:?}")); }
  for f in &m.gp { if embedded.contains(&f) { return Err(format!("#{f} is both general-purpose and embedded: {m:?}")); } }
  for s in &m.services { if m.gp.contains(s) || m.rel.iter().any(|r| r.iter().any(|(f, _)| f == s)) { return Err(format!("service id #{s} equals a method id: {m:?}")); } }
  Ok(())
}
fn apply_real(d: &mut CoreDocument, op: Op) -> bool {
  match op {
    Op::InsGp(f) => d.insert_method(vm(FRAGS[f]), MethodScope::VerificationMethod).is_ok(),
    Op::InsEmb(f, r) => d.insert_method(vm(FRAGS[f]), MethodScope::VerificationRelationship(RELS2[r])).is_ok(),
    Op::Rem(f) => d.remove_method(&url(FRAGS[f])).is_some(),
    Op::Attach(f, r) => d.attach_method_relationship(&url(FRAGS[f]), RELS2[r]).is_ok(),
    Op::Detach(f, r) => d.detach_method_relationship(&url(FRAGS[f]), RELS2[r]).is_ok(),
    Op::InsSvc(f) => d.insert_service(svc(FRAGS[f])).is_ok(),
    Op::RemSvc(f) => d.remove_service(&url(FRAGS[f])).is_some(),
  }
}
fn check_state(d: &CoreDocument, m: &Model, trail: &str) -> Result<(), String> {
  use identity_core::convert::ToJson;
  let seen = observe(d);
  invariant(&seen).map_err(|e| format!("{trail}: {e}"))?;
  if !same_entries(&seen, m) { return Err(format!("{trail}: document holds {seen:?}, the model predicts {m:?}")); }
  let json = d.to_json().map_err(|e| format!("{trail}: to_json {e}"))?;
  match CoreDocument::from_json(&json) { Ok(back) if back == *d => {}, Ok(_) => return Err(format!("{trail}: JSON round trip gives a different document: {json}")), Err(e) => return Err(format!("{trail}: own JSON does not deserialise ({e}): {json}")) }
  // resolution: by fragment and by full id, unscoped and scoped, against the model
  for f in FRAGS {
    let expect_method = m.mentions(f);
    for q in [format!("#{f}"), format!("{DID}#{f}")] {
      if d.resolve_method(q.as_str(), None).is_some() != expect_method { return Err(format!("{trail}: resolve_method({q}) found={} but the model says {expect_method}", !expect_method)); }
      if d.resolve_method(q.as_str(), Some(MethodScope::VerificationMethod)).is_some() != m.gp.iter().any(|x| x == f) { return Err(format!("{trail}: resolve_method({q}, VerificationMethod) disagrees with the model")); }
      for r in 0..2 {
        let got = d.resolve_method(q.as_str(), Some(MethodScope::VerificationRelationship(RELS2[r])));
        if got.is_some() != m.rel[r].iter().any(|(x, _)| x == f) { return Err(format!("{trail}: resolve_method({q}, {:?}) disagrees with the model", RELS2[r])); }
        if let Some(g) = got { if g.id().fragment() != Some(f) { return Err(format!("{trail}: resolve_method({q}) returned {}", g.id())); } }
      }
      if d.resolve_service(q.as_str()).is_some() != m.services.iter().any(|x| x == f) { return Err(format!("{trail}: resolve_service({q}) disagrees with the model")); }
    }
    if d.resolve_method(format!("did:example:other#{f}").as_str(), None).is_some() { return Err(format!("{trail}: a full id of another DID resolved")); }
  }
  Ok(())
}
fn mutation_histories_depth4() -> Result<(), String> {
  let starts: Vec<(&str, CoreDocument)> = vec![
    ("empty", CoreDocument::from_json(&format!(r#"{{"id":"{DID}"}}"#)).unwrap()),
    ("built", CoreDocument::builder(Default::default()).id(identity_did::CoreDID::parse(DID).unwrap()).verification_method(vm("a")).authentication(url("a")).build().unwrap()),
    ("deserialised", CoreDocument::from_json(&format!(r#"{{"id":"{DID}","keyAgreement":[{}],"service":[{{"id":"{DID}#b","type":"T","serviceEndpoint":"https://example.com/"}}]}}"#, jwk_method(DID, "a"))).unwrap()),
  ];
  let ops = all_ops();
  let mut runs = 0u32;
  for (name, start) in &starts {
    let m0 = observe(start);
    check_state(start, &m0, name)?;
    // depth-first over all sequences of length <= 4
    let mut stack: Vec<(CoreDocument, Model, String, usize)> = vec![(start.clone(), m0, name.to_string(), 0)];
    while let Some((d, m, trail, depth)) = stack.pop() {
      if depth == 4 { continue; }
      for &op in &ops {
        let mut d2 = d.clone();
        let before = d.clone();
        let accepted = apply_real(&mut d2, op);
        let t2 = format!("{trail} > {op:?}");
        runs += 1;
        match m.apply(op) {
          Some(m2) => {
            if !accepted { return Err(format!("{t2}: refused, the model accepts it")); }
            check_state(&d2, &m2, &t2)?;
            stack.push((d2, m2, t2, depth + 1));
          }
          None => {
            // remove_method / remove_service on an absent id report "nothing removed": also a refusal
            if accepted { return Err(format!("{t2}: accepted, the model refuses it (state {m:?})")); }
            if d2 != before { return Err(format!("{t2}: refused but the document changed")); }
          }
        }
      }
    }
  }
  if runs < 20_000 { return Err(format!("only {runs} operations explored")); }
  Ok(())
}

/// C05, bounded exhaustive over a value pool: every document member replaced by every value of a pool of junk / edge JSON
/// (one member at a time, and every pair for the method-carrying members); an accepted document then answers every read
/// accessor, method resolution with junk queries, verify_jws with junk tokens, and re-serialises to an equal document
fn junk_documents_never_panic() -> Result<(), String> {
  use identity_core::convert::ToJson;
  let m = |id: &str, ctl: &str| format!(r#"{{"id":"{id}","controller":"{ctl}","type":"JsonWebKey","publicKeyJwk":{{"kty":"OKP","crv":"Ed25519","x":"11qYAYKxCrfVS_7TyWQHOg7hcvPapiMlrwIaaPcHURo"}}}}"#);
  let pool: Vec<String> = vec!["null".into(), "true".into(), "0".into(), r#""""#.into(), r#""x""#.into(), r#""did:example:doc""#.into(), r#""did:example:doc#a""#.into(), r#""did:example:other#a""#.into(), r##""#a""##.into(),
    r#""did:example:doc?q=1#a""#.into(), r#""did:example:doc/path""#.into(), r#""did:example:%4""#.into(), "[]".into(), "[null]".into(), r#"["did:example:doc#a"]"#.into(), r#"["did:example:doc#a","did:example:doc#a"]"#.into(), r#"["did:example:doc"]"#.into(),
    "{}".into(), format!("[{}]", m("did:example:doc#a", "did:example:doc")), format!("[{},{}]", m("did:example:doc#a", "did:example:doc"), m("did:example:doc#a", "did:example:x")), format!("[{}]", m("did:example:other#a", "did:example:doc")),
    format!("[{}]", m("did:example:doc", "did:example:doc")), format!("[{}]", m("#a", "did:example:doc")), format!("[{}]", m("did:example:doc#a", "")), format!("[{},\"did:example:doc#a\"]", m("did:example:doc#a", "did:example:doc")),
    r#"[{"id":"did:example:doc#a","controller":"did:example:doc","type":"X","publicKeyMultibase":""}]"#.into(), r#"[{"id":"did:example:doc#a","controller":"did:example:doc","type":"X","publicKeyJwk":{"kty":"OKP","crv":"Ed25519","x":"","d":"AA"}}]"#.into(),
    r#"[{"id":"did:example:doc#a","type":"LinkedDomains","serviceEndpoint":"https://x.example"}]"#.into(), r#"[{"id":"did:example:doc#a","type":[],"serviceEndpoint":[]}]"#.into(), r#"[{"id":"did:example:doc#a","type":"T","serviceEndpoint":{"a":[]}}]"#.into(),
    r#"[{"id":"did:example:doc#a","type":"RevocationBitmap2022","serviceEndpoint":"data:application/octet-stream;base64,AAAA"}]"#.into(), r#"[{"id":"did:example:doc","type":"T","serviceEndpoint":"x:y"},{"id":"did:example:doc","type":"T","serviceEndpoint":"x:y"}]"#.into()];
  let members = ["id", "controller", "alsoKnownAs", "verificationMethod", "authentication", "assertionMethod", "keyAgreement", "capabilityDelegation", "capabilityInvocation", "service", "extra"];
  fn build(over: &[(&str, &str)]) -> String {
    let mut t: Vec<(String, String)> = vec![("id".into(), "\"did:example:doc\"".into())];
    for (k, v) in over { t.retain(|(k2, _)| k2 != k); t.push((k.to_string(), v.to_string())); }
    format!("{{{}}}", t.iter().map(|(k, v)| format!("\"{k}\":{v}")).collect::<Vec<_>>().join(","))
  }
  fn probe(json: String) -> Result<bool, String> {
    let j2 = json.clone();
    let r = catch_unwind(move || -> Result<bool, String> {
      let Ok(d) = CoreDocument::from_json(&j2) else { return Ok(false) };
      let _ = (d.id().to_string().len(), d.controller().map(|c| c.len()), d.also_known_as().len(), d.verification_method().len(), d.service().len(), d.properties().len(), d.methods(None).len());
      for (rel, _) in RELS { let _ = d.methods(Some(MethodScope::VerificationRelationship(rel))).len(); }
      for q in ["did:example:doc#a", "#a", "a", "", "#", "did:example:other#a", "did:example:doc", "did:example:doc?x#a", "%", "did:example:doc#%4"] {
        let _ = d.resolve_method(q, None).map(|m| m.id().to_string());
        for (rel, _) in RELS { let _ = d.resolve_method(q, Some(MethodScope::VerificationRelationship(rel))).is_some(); }
        let _ = d.resolve_service(q).map(|s| s.id().to_string());
      }
      let accept_all = JwsVerifierFn::from(|_i: VerificationInput, _k: &Jwk| -> Result<(), SignatureVerificationError> { Ok(()) });
      for hdr in [r#"{"alg":"EdDSA","kid":"did:example:doc#a"}"#, r##"{"alg":"EdDSA","kid":"#a"}"##, r#"{"alg":"EdDSA"}"#, r#"{"alg":"EdDSA","kid":""}"#, r#"{"alg":"EdDSA","kid":"did:example:other#a"}"#] {
        let t = format!("{}.{}.{}", encode_b64(hdr), encode_b64("{}"), encode_b64([1u8; 64]));
        let _ = d.verify_jws(&t, None, &accept_all, &JwsVerificationOptions::default()).is_ok();
        let _ = d.verify_jws(&t, Some(b"x"), &accept_all, &JwsVerificationOptions::default().method_scope(MethodScope::authentication())).is_ok();
      }
      let back = CoreDocument::from_json(&d.to_json().map_err(|e| e.to_string())?).map_err(|e| format!("own serialisation refused: {e}"))?;
      if back != d { return Err("re-deserialised document differs".into()); }
      Ok(true)
    }).map_err(|_| format!("CoreDocument PANICS for {json}"))?;
    r.map_err(|e| format!("{json}: {e}"))
  }
  let (mut n, mut accepted) = (0u32, 0u32);
  for k in members { for v in &pool { n += 1; if probe(build(&[(k, v)]))? { accepted += 1; } } }
  let carriers = ["verificationMethod", "authentication", "keyAgreement", "service", "controller"];
  for (i, a) in carriers.iter().enumerate() { for b in &carriers[i + 1..] { for va in &pool { for vb in &pool { n += 1; if probe(build(&[(a, va), (b, vb)]))? { accepted += 1; } } } } }
  for c in ["null", "[]", "5", r#""x""#, "{}", r#"{"id":null}"#, "", "{", "\u{0}"] { probe(c.to_owned())?; n += 1; }
  if n < 10_000 || accepted < 200 { return Err(format!("only {n} inputs, {accepted} accepted")); }
  Ok(())
}

/// C04 uniqueness over ids under ANOTHER DID: a method (general-purpose, embedded under each relationship, or a bare reference)
/// whose id lives under a foreign DID still blocks a service with exactly that id - and only that id: the same fragment under
/// a different DID is a different id.  A refusal leaves the document unchanged; an acceptance round-trips through JSON.
fn foreign_did_service_method_collisions() -> Result<(), String> {
  use identity_core::convert::ToJson;
  let own = DID; let foreign = "did:example:other";
  let svc_at = |id: &str| identity_document::service::Service::from_json(&format!(r#"{{"id":"{id}","type":"T","serviceEndpoint":"https://x.example/"}}"#)).unwrap();
  let vm_at = |id: &str| identity_verification::VerificationMethod::from_json(&jwk_method(id.split('#').next().unwrap(), id.split('#').nth(1).unwrap())).unwrap();
  for holder_did in [own, foreign] {
    let mid = format!("{holder_did}#shared");
    // ways the id can be present in the document
    let mut setups: Vec<(String, CoreDocument)> = vec![];
    { let mut d = CoreDocument::from_json(&format!(r#"{{"id":"{own}"}}"#)).unwrap(); d.insert_method(vm_at(&mid), MethodScope::VerificationMethod).map_err(|e| e.to_string())?; setups.push(("general-purpose method".into(), d)); }
    for (rel, name) in RELS { let mut d = CoreDocument::from_json(&format!(r#"{{"id":"{own}"}}"#)).unwrap(); d.insert_method(vm_at(&mid), MethodScope::VerificationRelationship(rel)).map_err(|e| e.to_string())?; setups.push((format!("method embedded under {name}"), d)); }
    for (_, name) in RELS { setups.push((format!("bare reference under {name}"), CoreDocument::from_json(&format!(r#"{{"id":"{own}","{name}":["{mid}"]}}"#)).map_err(|e| e.to_string())?)); }
    for (what, d0) in setups {
      for (sid, must_refuse) in [(mid.clone(), true), (format!("{}#shared", if holder_did == own { foreign } else { own }), false), (format!("{holder_did}#other"), false)] {
        let mut d = d0.clone();
        let r = d.insert_service(svc_at(&sid));
        if r.is_err() != must_refuse { return Err(format!("{what} with id {mid}: insert_service({sid}) {} (expected {})", if r.is_ok() { "accepted" } else { "refused" }, if must_refuse { "refusal" } else { "acceptance" })); }
        if must_refuse && d != d0 { return Err(format!("{what} with id {mid}: refused insert_service({sid}) changed the document")); }
        if !must_refuse && d.resolve_service(sid.as_str()).map(|s| s.id().to_string()) != Some(sid.clone()) { return Err(format!("{what}: accepted service {sid} does not resolve")); }
        let back = CoreDocument::from_json(&d.to_json().map_err(|e| e.to_string())?).map_err(|e| format!("{what} with id {mid}, after insert_service({sid}): own JSON refused: {e}"))?;
        if back != d { return Err(format!("{what}: JSON round trip differs after insert_service({sid})")); }
      }
    }
  }
  Ok(())
}

fn main() {
  std::panic::set_hook(Box::new(|_| {}));
  w("cd_foreign_did_service_method_collisions", foreign_did_service_method_collisions);
  w("cd_junk_documents_never_panic", junk_documents_never_panic);
  w("cd_mutation_histories_depth4_against_model", mutation_histories_depth4);
  w("cd_resolve_scope_exact", || {
    let d = doc();
    for (rel, name) in RELS { for (rel2, name2) in RELS {
      let found = d.resolve_method(format!("#e-{name}").as_str(), Some(MethodScope::VerificationRelationship(rel2))).is_some();
      if found != (rel == rel2) { return Err(format!("method embedded under {name} resolved under scope {name2}: {found}")); }
    }}
    if d.resolve_method("#gp", Some(MethodScope::VerificationMethod)).is_none() { return Err("general-purpose method not found in its scope".into()); }
    if d.resolve_method("#e-authentication", Some(MethodScope::VerificationMethod)).is_some() { return Err("embedded method found under VerificationMethod scope".into()); }
    for (_, name) in RELS { if d.resolve_method(format!("did:example:doc#e-{name}").as_str(), None).map(|m| m.id().to_string()) != Some(format!("did:example:doc#e-{name}")) { return Err(format!("unscoped resolution of e-{name}")); } }
    if d.resolve_method("did:example:other#gp", None).is_some() { return Err("a full id of another DID with the same fragment resolved".into()); }
    Ok(())
  });
  w("cd_insert_method_scope_exact", || {
    use identity_core::convert::ToJson;
    use identity_verification::VerificationMethod;
    let mk = |frag: &str| VerificationMethod::from_json(&jwk_method("did:example:doc", frag)).unwrap();
    let scopes: Vec<(MethodScope, &str)> = std::iter::once((MethodScope::VerificationMethod, "verificationMethod")).chain(RELS.iter().map(|(r, n)| (MethodScope::VerificationRelationship(*r), *n))).collect();
    for (scope, name) in &scopes {
      let mut d = doc();
      let before: serde_json::Value = serde_json::from_str(&d.to_json().unwrap()).unwrap();
      d.insert_method(mk("new"), *scope).map_err(|e| format!("insert under {name}: {e}"))?;
      let after: serde_json::Value = serde_json::from_str(&d.to_json().unwrap()).unwrap();
      for (_, other) in &scopes {
        let (b, a) = (before[other].as_array().map(|x| x.len()).unwrap_or(0), after[other].as_array().map(|x| x.len()).unwrap_or(0));
        if a != b + (other == name) as usize { return Err(format!("insert_method(.., {name}): collection {other} went from {b} to {a} entries")); }
      }
      if d.resolve_method("#new", Some(*scope)).is_none() { return Err(format!("method inserted under {name} does not resolve under that scope")); }
      // a second insertion of the same id, under any scope, is refused and changes nothing
      for (scope2, name2) in &scopes {
        let snap = d.to_json().unwrap();
        if d.insert_method(mk("new"), *scope2).is_ok() { return Err(format!("duplicate id accepted under {name2}")); }
        if d.to_json().unwrap() != snap { return Err(format!("refused insertion under {name2} changed the document")); }
      }
    }
    Ok(())
  });
  w("cd_id_constraints_at_deserialisation", || {
    let did = "did:example:doc";
    let svc = |frag: &str| format!(r#"{{"id":"{did}#{frag}","type":"X","serviceEndpoint":"https://example.com/"}}"#);
    let cases: Vec<(String, bool, &str)> = vec![
      (format!(r#"{{"id":"{did}","verificationMethod":[{}],"service":[{}]}}"#, jwk_method(did, "a"), svc("s")), true, "method and service with different ids"),
      (format!(r#"{{"id":"{did}","verificationMethod":[{}],"service":[{}]}}"#, jwk_method(did, "a"), svc("a")), false, "service id equal to a general-purpose method id"),
      (format!(r#"{{"id":"{did}","authentication":[{}],"service":[{}]}}"#, jwk_method(did, "a"), svc("a")), false, "service id equal to an embedded method id"),
      (format!(r#"{{"id":"{did}","authentication":[{}],"assertionMethod":[{}]}}"#, jwk_method(did, "a"), jwk_method(did, "a")), false, "the same id embedded under two relationships"),
      (format!(r#"{{"id":"{did}","authentication":[{}],"assertionMethod":["{did}#a"]}}"#, jwk_method(did, "a")), false, "a reference to an embedded method"),
      (format!(r#"{{"id":"{did}","verificationMethod":[{}],"authentication":[{}]}}"#, jwk_method(did, "a"), jwk_method(did, "a")), false, "a general-purpose method id also embedded"),
      (format!(r#"{{"id":"{did}","verificationMethod":[{}],"authentication":["{did}#a"],"assertionMethod":["{did}#a"]}}"#, jwk_method(did, "a")), true, "references to a general-purpose method from two relationships"),
      (format!(r#"{{"id":"{did}","verificationMethod":[{},{}]}}"#, jwk_method(did, "a"), jwk_method(did, "a")), false, "two general-purpose methods with one id"),
      (format!(r#"{{"id":"{did}","service":[{},{}]}}"#, svc("s"), svc("s")), false, "two services with one id"),
    ];
    for (json, want, what) in cases {
      let got = CoreDocument::from_json(&json).is_ok();
      if got != want { return Err(format!("{what}: accepted={got}, expected={want}")); }
    }
    Ok(())
  });
  w("cd_insert_after_dangling_reference_keeps_invariant", || {
    use identity_core::convert::ToJson;
    use identity_verification::VerificationMethod;
    let did = "did:example:doc";
    let mk = |frag: &str| VerificationMethod::from_json(&jwk_method(did, frag)).unwrap();
    // an accepted starting document with a relationship reference whose target is not (yet) in the document
    let start = format!(r#"{{"id":"{did}","authentication":["{did}#x"]}}"#);
    for (scope, name) in [(MethodScope::VerificationRelationship(MethodRelationship::AssertionMethod), "assertionMethod"), (MethodScope::VerificationRelationship(MethodRelationship::Authentication), "authentication"), (MethodScope::VerificationMethod, "verificationMethod")] {
      // a service must not take the id of a referenced method either
      if let Ok(mut ds) = CoreDocument::from_json(&start) {
        use identity_document::service::Service;
        let svc = Service::from_json(&format!(r#"{{"id":"{did}#x","type":"X","serviceEndpoint":"https://example.com/"}}"#)).unwrap();
        let r = ds.insert_service(svc);
        let json = ds.to_json().unwrap();
        if CoreDocument::from_json(&json).is_err() { return Err(format!("after insert_service(#x) [{}] next to a reference #x the document no longer deserialises", if r.is_ok() { "accepted" } else { "refused" })); }
      }
      let mut d = match CoreDocument::from_json(&start) { Ok(d) => d, Err(_) => return Ok(()) };
      let r = d.insert_method(mk("x"), scope);
      let json = d.to_json().unwrap();
      match CoreDocument::from_json(&json) {
        Ok(back) => { if back != d { return Err(format!("after insert_method(#x, {name}) [{}] the document does not round-trip to an equal document", if r.is_ok() { "accepted" } else { "refused" })); } }
        Err(e) => return Err(format!("after insert_method(#x, {name}) [{}] the document no longer deserialises: {e}; json = {json}", if r.is_ok() { "accepted" } else { "refused" })),
      }
    }
    Ok(())
  });
  w("cd_reference_resolves_to_the_referenced_method", || {
    // two general-purpose methods with the same fragment under different DIDs; the relationship references the SECOND one
    let (a, b) = ("did:example:doc", "did:example:other");
    let json = format!(r#"{{"id":"{a}","verificationMethod":[{},{}],"authentication":["{b}#k"]}}"#, jwk_method(a, "k"), jwk_method(b, "k"));
    let d = match CoreDocument::from_json(&json) { Ok(d) => d, Err(e) => return Err(format!("setup rejected: {e}")) };
    let m = d.resolve_method(&DIDUrl::parse(format!("{b}#k")).unwrap(), Some(MethodScope::VerificationRelationship(MethodRelationship::Authentication))).ok_or("reference does not resolve under its relationship")?;
    if m.id().to_string() != format!("{b}#k") { return Err(format!("reference to {b}#k resolves to {}", m.id())); }
    Ok(())
  });
  w("cd_attach_detach_exact", || {
    for (rel, name) in RELS { for (rel2, name2) in RELS {
      let mut d = doc();
      if d.attach_method_relationship("#gp", rel).map_err(|e| e.to_string())? != true { return Err("attach returned false".into()); }
      let before = d.clone();
      let r = d.detach_method_relationship("#gp", rel2).map_err(|e| e.to_string())?;
      if r != (rel == rel2) { return Err(format!("attached under {name}, detach from {name2} returned {r}")); }
      if rel != rel2 && d != before { return Err(format!("attached under {name}: a no-op detach from {name2} changed the document")); }
      if rel == rel2 && d != doc() { return Err(format!("attach+detach under {name} does not restore the document")); }
      let still = d.resolve_method("#gp", Some(MethodScope::VerificationRelationship(rel))).is_some();
      if still != (rel != rel2) { return Err(format!("after detach from {name2}, reference under {name} resolves: {still}")); }
    }}
    let mut d = doc();
    if d.attach_method_relationship("#e-authentication", MethodRelationship::KeyAgreement).is_ok() || d != doc() { return Err("attaching an embedded method accepted or changed the document".into()); }
    if d.attach_method_relationship("#nope", MethodRelationship::KeyAgreement).is_ok() || d != doc() { return Err("attaching an unknown method accepted or changed the document".into()); }
    Ok(())
  });
  w("cd_verify_jws_nonce_and_scope", || {
    let d = doc();
    let accept_all = JwsVerifierFn::from(|_i: VerificationInput, _k: &Jwk| -> Result<(), SignatureVerificationError> { Ok(()) });
    let tok = |hdr: &str| format!("{}.{}.{}", encode_b64(hdr), encode_b64("{}"), encode_b64([1u8; 64]));
    let no_nonce = tok(r#"{"alg":"EdDSA","kid":"did:example:doc#e-authentication"}"#);
    let with_nonce = tok(r#"{"alg":"EdDSA","kid":"did:example:doc#e-authentication","nonce":"n1"}"#);
    let v = |t: &str, o: &JwsVerificationOptions| d.verify_jws(t, None, &accept_all, o).is_ok();
    if !v(&no_nonce, &JwsVerificationOptions::default()) { return Err("plain token rejected".into()); }
    if v(&no_nonce, &JwsVerificationOptions::default().nonce("n1")) { return Err("token without nonce accepted although a nonce is required".into()); }
    if v(&with_nonce, &JwsVerificationOptions::default()) { return Err("token with nonce accepted although none is configured".into()); }
    if v(&with_nonce, &JwsVerificationOptions::default().nonce("n2")) { return Err("wrong nonce accepted".into()); }
    if !v(&with_nonce, &JwsVerificationOptions::default().nonce("n1")) { return Err("matching nonce rejected".into()); }
    for (rel, name) in RELS {
      let ok = v(&no_nonce, &JwsVerificationOptions::default().method_scope(MethodScope::VerificationRelationship(rel)));
      if ok != (rel == MethodRelationship::Authentication) { return Err(format!("token of an authentication-only method verified under scope {name}: {ok}")); }
    }
    let other = DIDUrl::parse("did:example:doc#e-keyAgreement").unwrap();
    if !v(&no_nonce, &JwsVerificationOptions::default().method_id(other)) { return Err("configured method id not used".into()); }
    Ok(())
  });
}
