// Concrete witnesses for the `vc_validate` unit, run against the real crate (public API; accept-all verifier).
use identity_core::common::{Object, Timestamp, Url};
use identity_core::convert::FromJson;
use identity_credential::credential::Jwt;
use identity_credential::revocation::RevocationBitmap;
use identity_credential::validator::{FailFast, JwtCredentialValidationOptions, JwtCredentialValidator, JwtValidationError, StatusCheck, SubjectHolderRelationship};
use identity_did::DIDUrl;
use identity_document::document::CoreDocument;
use identity_document::verifiable::JwsVerificationOptions;
use identity_verification::jwk::Jwk;
use identity_verification::jws::{JwsVerifierFn, SignatureVerificationError, VerificationInput};
use identity_verification::jwu::encode_b64;
use identity_verification::MethodScope;
use std::panic::catch_unwind;

fn w(name: &str, f: impl FnOnce() -> Result<(), String> + std::panic::UnwindSafe) {
  match catch_unwind(f) {
    Ok(Ok(())) => println!("WITNESS {name} OK"),
    Ok(Err(e)) => println!("WITNESS {name} FAIL {e}"),
    Err(_) => println!("WITNESS {name} FAIL panicked"),
  }
}
const DID: &str = "did:example:issuer";
const OTHER: &str = "did:example:other";
const ISSUER_URL: &str = "did:example:issuer";
const JWK: &str = r#"{"kty":"OKP","crv":"Ed25519","x":"11qYAYKxCrfVS_7TyWQHOg7hcvPapiMlrwIaaPcHURo"}"#;
/// document `did` with method #k embedded under `rel` ("verificationMethod" or a relationship) and a bitmap service #rev with `revoked`
fn doc_with(did: &str, rel: &str, revoked: &[u32]) -> CoreDocument {
  let mut bm = RevocationBitmap::new();
  for i in revoked { bm.revoke(*i); }
  let svc = bm.to_service(DIDUrl::parse(format!("{did}#rev")).unwrap()).unwrap();
  let svc = serde_json::to_string(&svc).unwrap();
  CoreDocument::from_json(&format!(r#"{{"id":"{did}","{rel}":[{{"id":"{did}#k","controller":"{did}","type":"JsonWebKey","publicKeyJwk":{JWK}}}],"service":[{svc}]}}"#)).unwrap()
}
fn doc() -> CoreDocument { doc_with(DID, "verificationMethod", &[5]) }
fn jwt_kid(kid: &str, header_extra: &str, claims: &str) -> Jwt {
  Jwt::new(format!("{}.{}.{}", encode_b64(format!(r#"{{"alg":"EdDSA","kid":"{kid}"{header_extra}}}"#)), encode_b64(claims), encode_b64([7u8; 64])))
}
fn jwt(header_extra: &str, claims: &str) -> Jwt { jwt_kid(&format!("{DID}#k"), header_extra, claims) }
fn claims(iss: &str, extra: &str, vc_extra: &str) -> String {
  format!(r#"{{ {extra} "iss":"{iss}", "nbf": 1500, "sub":"did:example:subject", "vc": {{ "@context":"https://www.w3.org/2018/credentials/v1","type":["VerifiableCredential"],"credentialSubject":{{"name":"x"}} {vc_extra} }} }}"#)
}
fn run(j: &Jwt, docs: &[CoreDocument], o: &JwtCredentialValidationOptions, ff: FailFast) -> Result<(), Vec<String>> {
  let accept_all = JwsVerifierFn::from(|_i: VerificationInput, _k: &Jwk| -> Result<(), SignatureVerificationError> { Ok(()) });
  let v = JwtCredentialValidator::with_signature_verifier(accept_all);
  // the signature step takes the slice of trusted issuers; validate takes the single issuer document
  v.verify_signature::<CoreDocument, Object>(j, docs, &o.verification_options).map_err(|e| vec![format!("{e:?}")])?;
  match docs.iter().find(|d| d.id().to_string() == DID) {
    Some(d) => v.validate::<CoreDocument, Object>(j, d, o, ff).map(|_| ()).map_err(|e| e.validation_errors.iter().map(|x| format!("{x:?}")).collect()),
    None => Ok(()),
  }
}
fn ok(j: &Jwt, o: &JwtCredentialValidationOptions) -> bool { run(j, &[doc()], o, FailFast::FirstError).is_ok() }
fn base() -> JwtCredentialValidationOptions {
  let t = |s: i64| Timestamp::from_unix(s).unwrap();
  JwtCredentialValidationOptions::default().earliest_expiry_date(t(1000)).latest_issuance_date(t(2000))
}

fn main() {
  std::panic::set_hook(Box::new(|_| {}));
  // "the credential is structurally well formed" (Credential::check_structure: iterator adapters, outside the verifier)
  w("vc_structure_rules", || {
    let mk = |ctx: &str, types: &str, subject: &str, with_sub: bool| -> Jwt {
      let sub = if with_sub { r#""sub":"did:example:subject","# } else { "" };
      jwt("", &format!(r#"{{ {sub} "iss":"{DID}", "nbf": 1500, "vc": {{ "@context":{ctx},"type":{types},"credentialSubject":{subject} }} }}"#))
    };
    let base_ctx = r#""https://www.w3.org/2018/credentials/v1""#;
    let cases: Vec<(&str, Jwt, bool)> = vec![
      ("well formed", mk(base_ctx, r#"["VerifiableCredential"]"#, r#"{"name":"x"}"#, true), true),
      ("base context first of several", mk(&format!(r#"[{base_ctx},"https://example.com/ctx"]"#), r#"["VerifiableCredential","Extra"]"#, r#"{"name":"x"}"#, true), true),
      ("subject with only an id", mk(base_ctx, r#"["VerifiableCredential"]"#, r#"{}"#, true), true),
      ("base context missing", mk(r#""https://example.com/ctx""#, r#"["VerifiableCredential"]"#, r#"{"name":"x"}"#, true), false),
      ("base context not first", mk(&format!(r#"["https://example.com/ctx",{base_ctx}]"#), r#"["VerifiableCredential"]"#, r#"{"name":"x"}"#, true), false),
      ("base type missing", mk(base_ctx, r#"["Extra"]"#, r#"{"name":"x"}"#, true), false),
      ("base type in another case", mk(base_ctx, r#"["verifiablecredential"]"#, r#"{"name":"x"}"#, true), false),
      ("empty subject object without id", mk(base_ctx, r#"["VerifiableCredential"]"#, r#"{}"#, false), false),
    ];
    for (what, j, want) in &cases {
      let got = run(j, &[doc()], &base(), FailFast::FirstError);
      if got.is_ok() != *want { return Err(format!("credential with {what}: accepted = {}, expected {want} ({got:?})", got.is_ok())); }
    }
    // all errors requested: a malformed AND expired credential reports both conditions
    let both = jwt("", &format!(r#"{{ "sub":"did:example:subject", "iss":"{DID}", "nbf": 1500, "exp": 10, "vc": {{ "@context":{base_ctx},"type":["Extra"],"credentialSubject":{{"name":"x"}} }} }}"#));
    match run(&both, &[doc()], &base(), FailFast::AllErrors) {
      Ok(()) => return Err("malformed and expired credential accepted".into()),
      Err(es) => if es.len() < 2 || !es.iter().any(|e| e.contains("Structure") || e.contains("structure")) || !es.iter().any(|e| e.contains("Expir") || e.contains("expir")) { return Err(format!("all errors requested, got {es:?}")); }
    }
    Ok(())
  });
  w("vc_issuer_must_equal_kid_did", || {
    if !ok(&jwt("", &claims(DID, "", "")), &base()) { return Err("plain credential rejected".into()); }
    // issuer differs from the DID of the verifying method, although that method's document is trusted too
    let docs = [doc(), doc_with(OTHER, "verificationMethod", &[])];
    if run(&jwt("", &claims(OTHER, "", "")), &docs, &base(), FailFast::FirstError).is_ok() { return Err(format!("credential issued by {OTHER} accepted with kid {DID}#k")); }
    if run(&jwt_kid(&format!("{OTHER}#k"), "", &claims(DID, "", "")), &docs, &base(), FailFast::FirstError).is_ok() { return Err(format!("credential issued by {DID} accepted with kid {OTHER}#k")); }
    // kid names a DID whose document is not among the trusted ones
    if run(&jwt_kid("did:example:third#k", "", &claims("did:example:third", "", "")), &docs, &base(), FailFast::FirstError).is_ok() { return Err("kid of an untrusted DID accepted".into()); }
    // kid of a method the document does not contain
    if ok(&jwt_kid(&format!("{DID}#nope"), "", &claims(DID, "", "")), &base()) { return Err("kid of an absent method accepted".into()); }
    // with a method-id override the VERIFYING method is the configured one: an issuer equal to the kid's DID (but not to
    // the DID of the configured method) is not the signer
    {
      let o = base().verification_options(JwsVerificationOptions::default().method_id(DIDUrl::parse(format!("{DID}#k")).unwrap()));
      let docs = [doc(), doc_with(OTHER, "verificationMethod", &[])];
      if run(&jwt_kid(&format!("{OTHER}#k"), "", &claims(OTHER, "", "")), &docs, &o, FailFast::FirstError).is_ok() { return Err(format!("method id {DID}#k configured, kid {OTHER}#k, issuer {OTHER}: accepted")); }
      if run(&jwt_kid(&format!("{OTHER}#k"), "", &claims(DID, "", "")), &docs, &o, FailFast::FirstError).is_err() { return Err(format!("method id {DID}#k configured, kid {OTHER}#k, issuer {DID}: rejected")); }
    }
    // method id override wins over kid
    let o = base().verification_options(JwsVerificationOptions::default().method_id(DIDUrl::parse(format!("{DID}#nope")).unwrap()));
    if ok(&jwt("", &claims(DID, "", "")), &o) { return Err("configured method id of an absent method ignored in favour of kid".into()); }
    Ok(())
  });
  w("vc_expiry_and_issuance_bounds", || {
    let mk = |nbf: i64, exp: Option<i64>| {
      let e = exp.map(|e| format!(r#""exp":{e},"#)).unwrap_or_default();
      format!(r#"{{ {e} "iss":"{DID}", "nbf": {nbf}, "sub":"did:example:subject", "vc": {{ "@context":"https://www.w3.org/2018/credentials/v1","type":["VerifiableCredential"],"credentialSubject":{{"name":"x"}} }} }}"#)
    };
    for (nbf, exp, want) in [(2000, None, true), (2001, None, false), (1999, None, true), (1500, Some(1000), true), (1500, Some(999), false), (1500, Some(1001), true), (2001, Some(999), false)] {
      if ok(&jwt("", &mk(nbf, exp)), &base()) != want { return Err(format!("nbf={nbf} exp={exp:?} with bounds exp>=1000, issuance<=2000: expected accept={want}")); }
    }
    // both failing conditions are reported when all errors are requested
    let errs = run(&jwt("", &mk(2001, Some(999))), &[doc()], &base(), FailFast::AllErrors).err().unwrap_or_default();
    if errs.len() != 2 { return Err(format!("nbf=2001 exp=999 with AllErrors: expected 2 errors, got {errs:?}")); }
    let errs = run(&jwt("", &mk(2001, Some(999))), &[doc()], &base(), FailFast::FirstError).err().unwrap_or_default();
    if errs.len() != 1 { return Err(format!("nbf=2001 exp=999 with FirstError: expected 1 error, got {errs:?}")); }
    // expiry is judged against `earliest_expiry_date`, else against NOW - never against the issuance bound
    let only_issuance = JwtCredentialValidationOptions::default().latest_issuance_date(Timestamp::from_unix(2000).unwrap());
    if ok(&jwt("", &mk(1500, Some(5000))), &only_issuance) { return Err("credential expired in 1970 accepted when only latest_issuance_date is configured".into()); }
    // a signed vc.expirationDate without exp is inconsistent, not "never expires"
    let c = format!(r#"{{ "iss":"{DID}", "nbf": 1500, "sub":"did:example:subject", "vc": {{ "@context":"https://www.w3.org/2018/credentials/v1","type":["VerifiableCredential"],"credentialSubject":{{"name":"x"}}, "expirationDate":"1970-01-01T00:00:10Z" }} }}"#);
    if ok(&jwt("", &c), &base()) { return Err("credential with vc.expirationDate=10s and no exp accepted with earliest expiry 1000".into()); }
    Ok(())
  });
  w("vc_nonce_rules", || {
    let o = |n: Option<&str>| { let mut v = JwsVerificationOptions::default(); if let Some(n) = n { v = v.nonce(n); } base().verification_options(v) };
    if ok(&jwt("", &claims(DID, "", "")), &o(Some("n1"))) { return Err("token without nonce accepted although a nonce is required".into()); }
    if ok(&jwt(r#","nonce":"n1""#, &claims(DID, "", "")), &o(None)) { return Err("token with nonce accepted although none is configured".into()); }
    if ok(&jwt(r#","nonce":"n2""#, &claims(DID, "", "")), &o(Some("n1"))) { return Err("token with another nonce accepted".into()); }
    if !ok(&jwt(r#","nonce":"n1""#, &claims(DID, "", "")), &o(Some("n1"))) { return Err("matching nonce rejected".into()); }
    Ok(())
  });
  w("vc_method_scope", || {
    let rels = ["authentication", "assertionMethod", "keyAgreement", "capabilityDelegation", "capabilityInvocation"];
    let scopes = [MethodScope::authentication(), MethodScope::assertion_method(), MethodScope::key_agreement(), MethodScope::capability_delegation(), MethodScope::capability_invocation()];
    for (i, rel) in rels.iter().enumerate() {
      for (k, scope) in scopes.iter().enumerate() {
        let o = base().verification_options(JwsVerificationOptions::default().method_scope(*scope));
        let got = run(&jwt("", &claims(DID, "", "")), &[doc_with(DID, rel, &[])], &o, FailFast::FirstError).is_ok();
        if got != (i == k) { return Err(format!("method embedded under {rel}, scope {scope:?}: accepted={got}")); }
      }
    }
    Ok(())
  });
  w("vc_revocation_status", || {
    let st = |idx: u32| format!(r#", "credentialStatus": {{"id":"{DID}#rev","type":"RevocationBitmap2022","revocationBitmapIndex":"{idx}"}}"#);
    let with = |s: StatusCheck| base().status_check(s);
    if ok(&jwt("", &claims(DID, "", &st(5))), &with(StatusCheck::Strict)) { return Err("index 5 is set in the issuer's bitmap but the credential is accepted (Strict)".into()); }
    if ok(&jwt("", &claims(DID, "", &st(5))), &with(StatusCheck::SkipUnsupported)) { return Err("index 5 is set in the issuer's bitmap but the credential is accepted (SkipUnsupported)".into()); }
    if !ok(&jwt("", &claims(DID, "", &st(5))), &with(StatusCheck::SkipAll)) { return Err("SkipAll does not skip".into()); }
    for idx in [4u32, 6, 0, 65536 + 5] { if !ok(&jwt("", &claims(DID, "", &st(idx))), &with(StatusCheck::Strict)) { return Err(format!("index {idx} is not set but the credential is rejected")); } }
    let unsupported = r#", "credentialStatus": {"id":"https://example.com/status/1","type":"SomethingElse"}"#;
    if ok(&jwt("", &claims(DID, "", unsupported)), &with(StatusCheck::Strict)) { return Err("unsupported status type accepted under Strict".into()); }
    if !ok(&jwt("", &claims(DID, "", unsupported)), &with(StatusCheck::SkipUnsupported)) { return Err("unsupported status type rejected under SkipUnsupported".into()); }
    // the status entry points at a service the issuer does not have
    let missing = format!(r#", "credentialStatus": {{"id":"{DID}#nosuch","type":"RevocationBitmap2022","revocationBitmapIndex":"1"}}"#);
    if ok(&jwt("", &claims(DID, "", &missing)), &with(StatusCheck::Strict)) { return Err("status pointing at a missing service accepted".into()); }
    Ok(())
  });
  w("vc_subject_holder", || {
    let holder = |s: &str| Url::parse(s).unwrap();
    let o = |h: &str, r: SubjectHolderRelationship| base().subject_holder_relationship(holder(h), r);
    let c = claims(DID, "", "");
    if !ok(&jwt("", &c), &o("did:example:subject", SubjectHolderRelationship::AlwaysSubject)) { return Err("holder == subject rejected under AlwaysSubject".into()); }
    if ok(&jwt("", &c), &o("did:example:someone", SubjectHolderRelationship::AlwaysSubject)) { return Err("holder != subject accepted under AlwaysSubject".into()); }
    if !ok(&jwt("", &c), &o("did:example:someone", SubjectHolderRelationship::Any)) { return Err("holder != subject rejected under Any".into()); }
    // SubjectOnNonTransferable: only binding when nonTransferable is true
    if !ok(&jwt("", &c), &o("did:example:someone", SubjectHolderRelationship::SubjectOnNonTransferable)) { return Err("transferable credential rejected for another holder".into()); }
    let nt = claims(DID, "", r#", "nonTransferable": true"#);
    if ok(&jwt("", &nt), &o("did:example:someone", SubjectHolderRelationship::SubjectOnNonTransferable)) { return Err("non-transferable credential accepted for another holder".into()); }
    if !ok(&jwt("", &nt), &o("did:example:subject", SubjectHolderRelationship::SubjectOnNonTransferable)) { return Err("non-transferable credential rejected for its subject".into()); }
    Ok(())
  });
  w("vc_status_list_2021_entry_rules", || {
    use identity_core::common::Context;
    use identity_credential::credential::{Credential, CredentialBuilder, Issuer, Subject, Status};
    use identity_credential::revocation::status_list_2021::{StatusList2021, StatusList2021CredentialBuilder, StatusList2021Entry, StatusPurpose};
    use identity_credential::validator::JwtCredentialValidatorUtils as U;
    let list_url = |n: u32| Url::parse(format!("https://example.com/status/{n}")).unwrap();
    let slc = |n: u32, purpose: StatusPurpose, set: &[usize]| {
      let mut c = StatusList2021CredentialBuilder::new(StatusList2021::default()).issuer(Issuer::Url(Url::parse(ISSUER_URL).unwrap())).purpose(purpose).subject_id(list_url(n)).build().unwrap();
      c.update(|l| { for i in set { l.set_entry(*i, true)?; } Ok(()) }).unwrap();
      c
    };
    let cred = |entry: Option<StatusList2021Entry>| -> Credential<Object> {
      let mut b = CredentialBuilder::default().issuer(Url::parse(ISSUER_URL).unwrap()).subject(Subject::from_json(r#"{"id":"did:example:subject"}"#).unwrap()).context(Context::Url(Url::parse("https://example.com/ctx").unwrap()));
      if let Some(e) = entry { b = b.status(Status::from(e)); }
      b.build().unwrap()
    };
    let entry = |n: u32, purpose: StatusPurpose, idx: usize| StatusList2021Entry::new(list_url(n), purpose, idx, None);
    let rev = slc(1, StatusPurpose::Revocation, &[7]);
    let sus = slc(1, StatusPurpose::Suspension, &[7]);
    let id = |c: &identity_credential::revocation::status_list_2021::StatusList2021Credential| c.id().cloned();
    if id(&rev) != Some(list_url(1)) { return Err(format!("status list credential id is {:?}", id(&rev))); }
    let run = |c: &Credential<Object>, l, s| U::check_status_with_status_list_2021(c, l, s).map_err(|e| format!("{e:?}"));
    // valid / revoked / suspended, neighbours untouched
    for (idx, want_ok) in [(6usize, true), (7, false), (8, true), (0, true)] {
      let got = run(&cred(Some(entry(1, StatusPurpose::Revocation, idx))), &rev, StatusCheck::Strict);
      if got.is_ok() != want_ok { return Err(format!("revocation list with bit 7 set, entry index {idx}: {got:?}")); }
    }
    match run(&cred(Some(entry(1, StatusPurpose::Revocation, 7))), &rev, StatusCheck::Strict) { Err(e) if e.contains("Revoked") => {}, other => return Err(format!("revoked entry reported as {other:?}")) }
    match run(&cred(Some(entry(1, StatusPurpose::Suspension, 7))), &sus, StatusCheck::Strict) { Err(e) if e.contains("Suspended") => {}, other => return Err(format!("suspended entry reported as {other:?}")) }
    // the entry must name THIS list and have the SAME purpose
    if run(&cred(Some(entry(2, StatusPurpose::Revocation, 6))), &rev, StatusCheck::Strict).is_ok() { return Err("entry naming another status list credential accepted".into()); }
    if run(&cred(Some(entry(1, StatusPurpose::Suspension, 6))), &rev, StatusCheck::Strict).is_ok() { return Err("suspension entry accepted against a revocation list".into()); }
    if run(&cred(Some(entry(1, StatusPurpose::Revocation, 6))), &sus, StatusCheck::Strict).is_ok() { return Err("revocation entry accepted against a suspension list".into()); }
    // no status / checking switched off
    if run(&cred(None), &rev, StatusCheck::Strict).is_err() { return Err("credential without status rejected".into()); }
    if run(&cred(Some(entry(1, StatusPurpose::Revocation, 7))), &rev, StatusCheck::SkipAll).is_err() { return Err("SkipAll does not skip".into()); }
    // index outside the list
    if run(&cred(Some(entry(1, StatusPurpose::Revocation, 10_000_000))), &rev, StatusCheck::Strict).is_ok() { return Err("index outside the list accepted".into()); }
    Ok(())
  });
  let _ = JwtValidationError::Revoked;
}
