// Concrete witnesses for the `sd_jwt` unit, run against the real crate (public API; the verifier accepts a signature iff
// its bytes are "good", so everything else is decided by the validator).
use identity_core::common::{Object, Timestamp};
use identity_core::convert::{FromJson, ToJson};
use identity_credential::sd_jwt_payload::{KeyBindingJwtClaims, SdJwt, SdObjectDecoder, SdObjectEncoder, Sha256Hasher};
use identity_credential::validator::{FailFast, JwtCredentialValidationOptions, KeyBindingJWTValidationOptions, SdJwtCredentialValidator};
use identity_document::document::CoreDocument;
use identity_document::verifiable::JwsVerificationOptions;
use identity_verification::jwk::Jwk;
use identity_verification::jws::{JwsVerifierFn, SignatureVerificationError, SignatureVerificationErrorKind, VerificationInput};
use identity_verification::jwu::encode_b64;
use std::panic::catch_unwind;

fn w(name: &str, f: impl FnOnce() -> Result<(), String> + std::panic::UnwindSafe) {
  match catch_unwind(f) {
    Ok(Ok(())) => println!("WITNESS {name} OK"),
    Ok(Err(e)) => println!("WITNESS {name} FAIL {e}"),
    Err(_) => println!("WITNESS {name} FAIL panicked"),
  }
}
const ISSUER: &str = "did:example:issuer";
const HOLDER: &str = "did:example:holder";
const JWK: &str = r#"{"kty":"OKP","crv":"Ed25519","x":"11qYAYKxCrfVS_7TyWQHOg7hcvPapiMlrwIaaPcHURo"}"#;
fn doc(did: &str) -> CoreDocument {
  CoreDocument::from_json(&format!(r#"{{"id":"{did}","verificationMethod":[{{"id":"{did}#k","controller":"{did}","type":"JsonWebKey","publicKeyJwk":{JWK}}}]}}"#)).unwrap()
}
fn jws(header: &str, claims: &str, sig: &[u8]) -> String { format!("{}.{}.{}", encode_b64(header), encode_b64(claims), encode_b64(sig)) }
fn validator() -> SdJwtCredentialValidator<JwsVerifierFn<impl Fn(VerificationInput, &Jwk) -> Result<(), SignatureVerificationError>>> {
  let v = JwsVerifierFn::from(|i: VerificationInput, _k: &Jwk| -> Result<(), SignatureVerificationError> {
    if &*i.decoded_signature == b"good" { Ok(()) } else { Err(SignatureVerificationError::new(SignatureVerificationErrorKind::InvalidSignature)) }
  });
  SdJwtCredentialValidator::with_signature_verifier(v, SdObjectDecoder::new_with_sha256())
}
/// issuer-signed SD-JWT with one concealed claim; returns (jwt, disclosures)
fn issuer_jwt(iss: &str, header_extra: &str, sig: &[u8]) -> (String, Vec<String>) {
  let claims = format!(r#"{{"iss":"{iss}","nbf":1500,"sub":"did:example:subject","vc":{{"@context":"https://www.w3.org/2018/credentials/v1","type":["VerifiableCredential"],"credentialSubject":{{"name":"x","degree":"BSc"}}}}}}"#);
  let mut enc = SdObjectEncoder::new(&claims).unwrap();
  let d = enc.conceal("/vc/credentialSubject/degree", None).unwrap();
  enc.add_sd_alg_property();
  let payload = enc.try_to_string().unwrap();
  (jws(&format!(r#"{{"alg":"EdDSA","kid":"{ISSUER}#k"{header_extra}}}"#), &payload, sig), vec![d.to_string()])
}
fn kb(jwt: &str, disclosures: &[String], typ: Option<&str>, kid: &str, nonce: &str, aud: &str, iat: i64, sig: &[u8]) -> String {
  let claims = KeyBindingJwtClaims::new(&Sha256Hasher::new(), jwt.to_owned(), disclosures.to_vec(), nonce.to_owned(), aud.to_owned(), iat).to_json().unwrap();
  let typ = typ.map(|t| format!(r#","typ":"{t}""#)).unwrap_or_default();
  jws(&format!(r#"{{"alg":"EdDSA","kid":"{kid}"{typ}}}"#), &claims, sig)
}
fn now() -> i64 { Timestamp::now_utc().to_unix() }
fn kb_ok(sd: &SdJwt, o: &KeyBindingJWTValidationOptions) -> bool { validator().validate_key_binding_jwt(sd, &doc(HOLDER), o).is_ok() }
const TYP: &str = KeyBindingJwtClaims::KB_JWT_HEADER_TYP;

fn main() {
  std::panic::set_hook(Box::new(|_| {}));
  let (jwt, disc) = issuer_jwt(ISSUER, "", b"good");
  let base = || KeyBindingJWTValidationOptions::new().nonce("n1").aud("verifier");
  let sd = |kbj: String| SdJwt::new(jwt.clone(), disc.clone(), Some(kbj));
  let hk = format!("{HOLDER}#k");

  w("kb_bad_signature_is_an_error", || {
    if !kb_ok(&sd(kb(&jwt, &disc, Some(TYP), &hk, "n1", "verifier", now(), b"good")), &base()) { return Err("well-formed KB-JWT rejected".into()); }
    // a KB-JWT whose signature does not verify must be an error (not acceptance, not a crash)
    match catch_unwind(|| kb_ok(&sd(kb(&jwt, &disc, Some(TYP), &hk, "n1", "verifier", now(), b"bad")), &base())) {
      Ok(false) => Ok(()),
      Ok(true) => Err("KB-JWT with an invalid signature accepted".into()),
      Err(_) => Err("KB-JWT with an invalid signature: validate_key_binding_jwt panicked".into()),
    }
  });
  w("kb_typ_must_be_kb_jwt", || {
    if kb_ok(&sd(kb(&jwt, &disc, None, &hk, "n1", "verifier", now(), b"good")), &base()) { return Err("KB-JWT without typ accepted".into()); }
    if kb_ok(&sd(kb(&jwt, &disc, Some("JWT"), &hk, "n1", "verifier", now(), b"good")), &base()) { return Err("KB-JWT typed JWT accepted".into()); }
    // the type the specification and the property name is exactly "kb+jwt"
    if !kb_ok(&sd(kb(&jwt, &disc, Some("kb+jwt"), &hk, "n1", "verifier", now(), b"good")), &base()) { return Err(format!("KB-JWT typed \"kb+jwt\" rejected (the library demands typ {TYP:?})")); }
    if TYP != "kb+jwt" && kb_ok(&sd(kb(&jwt, &disc, Some(TYP), &hk, "n1", "verifier", now(), b"good")), &base()) { return Err(format!("KB-JWT typed {TYP:?} accepted")); }
    Ok(())
  });
  w("kb_binding_nonce_aud_iat_key", || {
    let good = |n: &str, a: &str, iat: i64| sd(kb(&jwt, &disc, Some(TYP), &hk, n, a, iat, b"good"));
    if kb_ok(&good("n2", "verifier", now()), &base()) { return Err("other nonce accepted".into()); }
    if kb_ok(&good("n1", "other", now()), &base()) { return Err("other audience accepted".into()); }
    // sd_hash over another token / other disclosures
    let (jwt2, disc2) = issuer_jwt(ISSUER, r#","x":1"#, b"good");
    if kb_ok(&SdJwt::new(jwt.clone(), disc.clone(), Some(kb(&jwt2, &disc2, Some(TYP), &hk, "n1", "verifier", now(), b"good"))), &base()) { return Err("sd_hash over another SD-JWT accepted".into()); }
    if kb_ok(&SdJwt::new(jwt.clone(), vec![], Some(kb(&jwt, &disc, Some(TYP), &hk, "n1", "verifier", now(), b"good"))), &base()) { return Err("sd_hash over other disclosures accepted".into()); }
    if kb_ok(&SdJwt::new(jwt.clone(), disc.clone(), None), &base()) { return Err("missing KB-JWT accepted".into()); }
    // the presented disclosures are hashed exactly as presented: a repeated disclosure is part of the text
    let mut twice = disc.clone(); twice.push(disc[0].clone());
    if kb_ok(&SdJwt::new(jwt.clone(), twice.clone(), Some(kb(&jwt, &disc, Some(TYP), &hk, "n1", "verifier", now(), b"good"))), &base()) { return Err("sd_hash over d1 accepted for a presentation d1~d1".into()); }
    if !kb_ok(&SdJwt::new(jwt.clone(), twice.clone(), Some(kb(&jwt, &twice, Some(TYP), &hk, "n1", "verifier", now(), b"good"))), &base()) { return Err("sd_hash over d1~d1 rejected for a presentation d1~d1".into()); }
    // key must belong to the supplied holder document
    if kb_ok(&sd(kb(&jwt, &disc, Some(TYP), &format!("{ISSUER}#k"), "n1", "verifier", now(), b"good")), &base()) { return Err("kid of another document accepted".into()); }
    if kb_ok(&sd(kb(&jwt, &disc, Some(TYP), &format!("{HOLDER}#nope"), "n1", "verifier", now(), b"good")), &base()) { return Err("kid of an absent method accepted".into()); }
    // issuance window
    let t = |s: i64| Timestamp::from_unix(s).unwrap();
    let n = now();
    for (iat, o, want) in [
      (n + 3600, base(), false), (n - 10, base(), true),
      (n + 3600, base().earliest_issuance_date(t(n - 100)), false),
      (n - 200, base().earliest_issuance_date(t(n - 100)), false), (n - 100, base().earliest_issuance_date(t(n - 100)), true),
      (n + 3600, base().latest_issuance_date(t(n + 7200)), true), (n + 7201, base().latest_issuance_date(t(n + 7200)), false), (n + 7200, base().latest_issuance_date(t(n + 7200)), true),
      (253402300800, base().latest_issuance_date(t(253402300799)), false),
    ] {
      if kb_ok(&good("n1", "verifier", iat), &o) != want { return Err(format!("iat = now{:+}: expected accept={want} with {o:?}", iat - n)); }
    }
    Ok(())
  });
  w("sd_credential_issuer_rules", || {
    let run = |jwt: &str, disc: &[String], o: &JwtCredentialValidationOptions| validator().validate_credential::<_, Object>(&SdJwt::new(jwt.to_owned(), disc.to_vec(), None), &doc(ISSUER), o, FailFast::FirstError).is_ok();
    let t = |s: i64| Timestamp::from_unix(s).unwrap();
    let base = || JwtCredentialValidationOptions::default().latest_issuance_date(t(2000));
    if !run(&jwt, &disc, &base()) { return Err("well-formed SD-JWT credential rejected".into()); }
    if run(&issuer_jwt(ISSUER, "", b"bad").0, &disc, &base()) { return Err("invalid issuer signature accepted".into()); }
    if run(&issuer_jwt("did:example:other", "", b"good").0, &issuer_jwt("did:example:other", "", b"good").1, &base()) { return Err("issuer != kid DID accepted".into()); }
    // two trusted issuers: a token signed with a key of B (kid of B) that names A as issuer must be rejected
    {
      let other = "did:example:other";
      let claims = format!(r#"{{"iss":"{ISSUER}","nbf":1500,"sub":"did:example:subject","vc":{{"@context":"https://www.w3.org/2018/credentials/v1","type":["VerifiableCredential"],"credentialSubject":{{"name":"x","degree":"BSc"}}}}}}"#);
      let mut enc = SdObjectEncoder::new(&claims).unwrap();
      let d = enc.conceal("/vc/credentialSubject/degree", None).unwrap();
      enc.add_sd_alg_property();
      let token = jws(&format!(r#"{{"alg":"EdDSA","kid":"{other}#k"}}"#), &enc.try_to_string().unwrap(), b"good");
      let sd = SdJwt::new(token, vec![d.to_string()], None);
      let trusted = [doc(ISSUER), doc(other)];
      if validator().verify_signature::<CoreDocument, Object>(&sd, &trusted, &JwsVerificationOptions::default()).is_ok() {
        return Err(format!("SD-JWT signed with a key of {other} accepted as issued by {ISSUER} (both trusted)"));
      }
    }
    let n = |x: Option<&str>| { let mut v = JwsVerificationOptions::default(); if let Some(x) = x { v = v.nonce(x); } base().verification_options(v) };
    if run(&jwt, &disc, &n(Some("n1"))) { return Err("token without nonce accepted although a nonce is required".into()); }
    let (jn, dn) = issuer_jwt(ISSUER, r#","nonce":"n1""#, b"good");
    if run(&jn, &dn, &n(None)) { return Err("token with nonce accepted although none is configured".into()); }
    if !run(&jn, &dn, &n(Some("n1"))) { return Err("matching nonce rejected".into()); }
    // a disclosure that is not referenced by the signed claims
    let mut extra = disc.clone(); extra.push(issuer_jwt(ISSUER, r#","y":2"#, b"good").1[0].replace('A', "B"));
    if run(&jwt, &extra, &base()) { return Err("unreferenced / corrupted disclosure accepted".into()); }
    if run(&jwt, &disc, &JwtCredentialValidationOptions::default().latest_issuance_date(t(1000))) { return Err("issued after the latest-issuance bound accepted".into()); }
    // expiry is judged against `earliest_expiry_date`, else against NOW - never against the issuance bound
    {
      let claims = format!(r#"{{"iss":"{ISSUER}","nbf":1500,"exp":5000,"sub":"did:example:subject","vc":{{"@context":"https://www.w3.org/2018/credentials/v1","type":["VerifiableCredential"],"credentialSubject":{{"name":"x","degree":"BSc"}}}}}}"#);
      let mut enc = SdObjectEncoder::new(&claims).unwrap();
      let d = enc.conceal("/vc/credentialSubject/degree", None).unwrap();
      enc.add_sd_alg_property();
      let token = jws(&format!(r#"{{"alg":"EdDSA","kid":"{ISSUER}#k"}}"#), &enc.try_to_string().unwrap(), b"good");
      if run(&token, &[d.to_string()], &JwtCredentialValidationOptions::default().latest_issuance_date(t(2000))) { return Err("credential expired in 1970 accepted when only latest_issuance_date (before the expiry) is configured".into()); }
      if !run(&token, &[d.to_string()], &JwtCredentialValidationOptions::default().latest_issuance_date(t(2000)).earliest_expiry_date(t(4000))) { return Err("credential valid at the configured expiry bound rejected".into()); }
    }
    Ok(())
  });
  // C05, bounded exhaustive over pools: presentations assembled from every combination of an issuer-JWT pool, a disclosure
  // pool (0..2 of them) and a key-binding pool, as a '~' separated text through SdJwt::parse and as parts through SdJwt::new,
  // into validate_credential, verify_signature and validate_key_binding_jwt: an error or a value, never a panic
  w("sd_junk_presentations_never_panic", || {
    let payload_of = |claims: &str| { let mut e = SdObjectEncoder::new(claims).unwrap(); let d = e.conceal("/vc/credentialSubject/degree", None).unwrap(); e.add_sd_alg_property(); (e.try_to_string().unwrap(), d.to_string()) };
    let (good_payload, good_disc) = payload_of(&format!(r#"{{"iss":"{ISSUER}","nbf":1500,"vc":{{"@context":"https://www.w3.org/2018/credentials/v1","type":["VerifiableCredential"],"credentialSubject":{{"name":"x","degree":"BSc"}}}}}}"#));
    let hdr = format!(r#"{{"alg":"EdDSA","kid":"{ISSUER}#k"}}"#);
    let mut jwts: Vec<String> = vec![jws(&hdr, &good_payload, b"good"), jws(&hdr, &good_payload, b"bad"), String::new(), "x".into(), "..".into(), "a.b.c".into(), "e30.e30.e30".into(),
      jws(&hdr, "{}", b"good"), jws(&hdr, "[]", b"good"), jws(&hdr, r#"{"_sd":"x"}"#, b"good"), jws(&hdr, r#"{"_sd":[1,null,""],"_sd_alg":5}"#, b"good"), jws(&hdr, r#"{"_sd_alg":"md5","iss":"did:example:issuer"}"#, b"good"),
      jws(&hdr, &good_payload.replace("\"_sd_alg\":\"sha-256\"", "\"_sd_alg\":\"sha-512\""), b"good"), jws(&hdr, &good_payload.replace("\"_sd\":[", "\"_sd\":[\"\","), b"good"),
      jws(&hdr, &format!(r#"{{"iss":"{ISSUER}","nbf":1500,"cnf":5,"vc":{{"credentialSubject":{{"...":"x","a":[{{"...":7}},{{"...":"{}"}}]}}}}}}"#, "A".repeat(43)), b"good"),
      jws(r#"{"alg":"EdDSA"}"#, &good_payload, b"good"), jws(r#"{"alg":"none","kid":"did:example:issuer#k"}"#, &good_payload, b""), jws(&format!(r#"{{"alg":"EdDSA","kid":"{ISSUER}#k","typ":7}}"#), &good_payload, b"good")];
    jwts.push(format!("{}.", jwts[0]));
    let discs: Vec<String> = vec![good_disc.clone(), String::new(), "%".into(), encode_b64("[]"), encode_b64(r#"["salt"]"#), encode_b64(r#"["salt","k"]"#), encode_b64(r#"["salt","_sd","v"]"#), encode_b64(r#"["salt","...","v"]"#),
      encode_b64(r#"["salt","degree",{"_sd":["x"],"...":1}]"#), encode_b64(r#"[1,2,3]"#), encode_b64(r#"["salt","k","v","extra"]"#), encode_b64("{}"), good_disc[..good_disc.len() - 1].to_owned(), format!("{good_disc}="), encode_b64(&format!("[{}1{}]", "[".repeat(200), "]".repeat(200)))];
    let kbh = format!(r#"{{"alg":"EdDSA","kid":"{HOLDER}#k","typ":"{TYP}"}}"#);
    let kbs: Vec<Option<String>> = vec![None, Some(String::new()), Some("x".into()), Some("a.b.c".into()), Some(kb(&jwts[0], &[good_disc.clone()], Some(TYP), &format!("{HOLDER}#k"), "n1", "verifier", now(), b"good")),
      Some(jws(&kbh, "{}", b"good")), Some(jws(&kbh, r#"{"iat":"x","aud":5,"nonce":[],"sd_hash":null}"#, b"good")), Some(jws(&kbh, r#"{"iat":1e30,"aud":"verifier","nonce":"n1","sd_hash":""}"#, b"good")),
      Some(jws(&kbh, r#"{"iat":-9223372036854775808,"aud":"verifier","nonce":"n1","sd_hash":"x"}"#, b"good")), Some(jws(&kbh, r#"{"iat":9223372036854775807,"aud":"verifier","nonce":"n1","sd_hash":"x"}"#, b"good")), Some(jws(r#"{"alg":"EdDSA","typ":"kb+jwt"}"#, "{}", b"good"))];
    let mut n = 0u32;
    let mut probe = |what: String, sd: Option<SdJwt>| -> Result<(), String> {
      let Some(sd) = sd else { return Ok(()) };
      n += 1;
      catch_unwind(move || {
        let v = validator();
        for ff in [FailFast::FirstError, FailFast::AllErrors] { let _ = v.validate_credential::<_, Object>(&sd, &doc(ISSUER), &JwtCredentialValidationOptions::default(), ff).map(|d| d.credential.issuance_date.to_unix()); }
        let _ = v.verify_signature::<CoreDocument, Object>(&sd, &[doc(ISSUER), doc(HOLDER)], &JwsVerificationOptions::default()).is_ok();
        let _ = v.validate_key_binding_jwt(&sd, &doc(HOLDER), &KeyBindingJWTValidationOptions::new().nonce("n1").aud("verifier")).is_ok();
        let _ = v.validate_key_binding_jwt(&sd, &doc(HOLDER), &KeyBindingJWTValidationOptions::new().earliest_issuance_date(Timestamp::from_unix(0).unwrap()).latest_issuance_date(Timestamp::from_unix(1).unwrap())).is_ok();
        let _ = (sd.presentation().len(), sd.to_string().len());
      }).map_err(|_| format!("the SD-JWT validator PANICS for {what}"))
    };
    for (ji, j) in jwts.iter().enumerate() { for (ki, k) in kbs.iter().enumerate() {
      let mut sets: Vec<Vec<String>> = vec![vec![]];
      for a in &discs { sets.push(vec![a.clone()]); }
      for a in &discs { for b in &discs { sets.push(vec![a.clone(), b.clone()]); } }
      for (di, ds) in sets.iter().enumerate() {
        if ds.len() == 2 && (ki > 4 || ji > 1) { continue; }
        probe(format!("jwt #{ji}, disclosure set #{di}, key binding #{ki} (as parts)"), Some(SdJwt::new(j.clone(), ds.clone(), k.clone())))?;
        let text = format!("{j}~{}{}", ds.iter().map(|d| format!("{d}~")).collect::<String>(), k.clone().unwrap_or_default());
        let t2 = text.clone();
        let parsed = catch_unwind(move || SdJwt::parse(&t2).ok()).map_err(|_| format!("SdJwt::parse PANICS for {text:?}"))?;
        probe(format!("jwt #{ji}, disclosure set #{di}, key binding #{ki} (parsed)"), parsed)?;
      }
    } }
    for t in ["", "~", "~~", "~~~", "a~", "~a", "a~~b", "a~b~c", "é~", "\u{0}~\u{0}"] { let t2 = t.to_owned(); let parsed = catch_unwind(move || SdJwt::parse(&t2).ok()).map_err(|_| format!("SdJwt::parse PANICS for {t:?}"))?; probe(format!("text {t:?}"), parsed)?; }
    if n < 8_000 { return Err(format!("only {n} presentations")); }
    Ok(())
  });
  // bounded exhaustive: every string of up to 6 characters over an alphabet that mixes base64 characters, padding, the
  // separator and junk; an accepted value answers every accessor, and the parts recompose to the text
  w("im_small_scope_accessors_total_and_recompose", || {
    use identity_credential::sd_jwt_vc::metadata::IntegrityMetadata;
    let alphabet = ['a', 'A', '1', '=', '-', '+', '/', ' '];
    let mut cur: Vec<usize> = vec![];
    let mut n = 0u32;
    loop {
      let mut k = cur.len();
      loop {
        if k == 0 { cur = vec![0; cur.len() + 1]; break; }
        k -= 1;
        if cur[k] + 1 < alphabet.len() { cur[k] += 1; for j in k + 1..cur.len() { cur[j] = 0; } break; }
      }
      if cur.len() > 6 { break; }
      let text: String = cur.iter().map(|&i| alphabet[i]).collect();
      n += 1;
      let t2 = text.clone();
      let r = std::panic::catch_unwind(move || {
        match IntegrityMetadata::parse(&t2) {
          Err(_) => None,
          Ok(m) => Some((m.alg().to_owned(), m.digest().to_owned(), m.digest_bytes().len(), m.options().map(str::to_owned), m.to_string())),
        }
      }).map_err(|_| format!("IntegrityMetadata::parse({text:?}) is accepted but an accessor PANICS"))?;
      if let Some((alg, digest, _len, options, shown)) = r {
        let re = match &options { Some(o) => format!("{alg}-{digest}-{o}"), None => format!("{alg}-{digest}") };
        if re != text || shown != text { return Err(format!("{text:?} is accepted with alg {alg:?} digest {digest:?} options {options:?}, shown as {shown:?}")); }
      } else if !text.contains('-') { /* no separator: must be refused - nothing to check */ }
    }
    if n < 200_000 { return Err(format!("only {n} strings")); }
    Ok(())
  });
  w("im_accepted_integrity_metadata_has_total_accessors", || {
    use identity_credential::sd_jwt_vc::metadata::IntegrityMetadata;
    // every accepted value must answer alg / digest / digest_bytes / options without panicking (C05)
    for text in ["sha256-47DEQpj8HBSa+/TImW+5JCeuQeRkm5NMpJWZG3hSuFU=", "sha256-47DEQpj8HBSa+/TImW+5JCeuQeRkm5NMpJWZG3hSuFU", "sha384-dOTZf16X8p34q2/kYyEFm0jh89uTjikhnzjeLeF0FHsEaYKb1A1cv+Lyv4Hk8vHd",
                 "sha512-z4PhNX7vuL3xVChQ1m2AB9Yg5AULVxXcg/SpIdNs6c5H0NE8XYXysP+DGNKHfuwvY7kxvUdBeoGlODJ6+SfaPg==", "sha256-", "sha256", "-", "--", "sha256-AAAA-opt-more", "sha256-A", "sha256-A=", "sha256-====", "a-b-c-d", ""] {
      match std::panic::catch_unwind(|| {
        if let Ok(m) = IntegrityMetadata::parse(text) { let _ = (m.alg().len(), m.digest().len(), m.digest_bytes().len(), m.options().map(|o| o.len()), m.to_string()); }
      }) { Ok(()) => {}, Err(_) => return Err(format!("IntegrityMetadata::parse({text:?}) is accepted but an accessor panics")) }
    }
    Ok(())
  });
}
