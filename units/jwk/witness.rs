// Concrete witnesses for the `jwk` unit, run against the real crates (public API only).
use identity_jose::jwk::{Jwk, JwkParams, JwkParamsEc, JwkParamsOkp, JwkParamsRsa, JwkParamsRsaPrime, JwkType};
use std::panic::catch_unwind;

fn w(name: &str, f: impl FnOnce() -> Result<(), String> + std::panic::UnwindSafe) {
  match catch_unwind(f) {
    Ok(Ok(())) => println!("WITNESS {name} OK"),
    Ok(Err(e)) => println!("WITNESS {name} FAIL {e}"),
    Err(_) => println!("WITNESS {name} FAIL panicked"),
  }
}
fn s(x: &str) -> Option<String> { Some(x.to_string()) }

/// JSON members of a key of each family: (required public members, private members)
fn family(f: &str) -> (Vec<(&'static str, &'static str)>, Vec<(&'static str, &'static str)>) {
  match f {
    "EC" => (vec![("crv", "P-256"), ("x", "f83OJ3D2xF1Bg8vub9tLe1gHMzV76e8Tus9uPHvRVEU"), ("y", "x_FEzRu9m36HLN_tue659LNpXW6pCyStikYjKIWI5a0")], vec![("d", "jpsQnnGQmL-YBIffH1136cspYG6-0iY7X1fCE9-E9LI")]),
    "OKP" => (vec![("crv", "Ed25519"), ("x", "11qYAYKxCrfVS_7TyWQHOg7hcvPapiMlrwIaaPcHURo")], vec![("d", "nWGxne_9WmC6hEr0kuwsxERJxWl7MmkZcDusAxyuf2A")]),
    "RSA" => (vec![("n", "0vx7agoebGcQ"), ("e", "AQAB")], vec![("d", "X4cTteJY"), ("p", "83i-7IvM"), ("q", "3dfOR9cu"), ("dp", "G4sPXkc6"), ("dq", "s9lAH9fg"), ("qi", "GyM_p6JrX")]),
    _ => (vec![("k", "GawgguFyGrWKav7AX4VKUg")], vec![]),
  }
}
fn json_of(kty: &str, members: &[(&str, &str)], optional: &[(&str, &str)], kty_last: bool) -> String {
  let mut parts: Vec<String> = vec![];
  if !kty_last { parts.push(format!(r#""kty":"{kty}""#)); }
  for (k, v) in optional.iter().chain(members.iter()) { parts.push(if *k == "key_ops" { format!(r#""{k}":{v}"#) } else { format!(r#""{k}":"{v}""#) }); }
  if kty_last { parts.push(format!(r#""kty":"{kty}""#)); }
  format!("{{{}}}", parts.join(","))
}
/// coherent JWKs of all four types x every subset of private members x optional members x member order:
/// projection, is_public and thumbprint behave as C18 says
fn thumbprint_and_projection_grid() -> Result<(), String> {
  for fam in ["EC", "OKP", "RSA", "oct"] {
    let (public, private) = family(fam);
    let bare: Jwk = serde_json::from_str(&json_of(fam, &public, &[], false)).map_err(|e| format!("{fam} bare: {e}"))?;
    let thumb = bare.thumbprint_sha256_b64();
    for mask in 0u32..(1 << private.len()) {
      let mut members = public.clone();
      for (i, m) in private.iter().enumerate() { if mask >> i & 1 == 1 { members.push(*m); } }
      let mut reversed = members.clone(); reversed.reverse();
      let optional = [("alg", "EdDSA"), ("kid", "some-kid"), ("use", "sig"), ("key_ops", r#"["sign"]"#)];
      for (what, text) in [("plain", json_of(fam, &members, &[], false)), ("reordered", json_of(fam, &reversed, &[], true)), ("with optional members", json_of(fam, &members, &optional, false))] {
        let j: Jwk = serde_json::from_str(&text).map_err(|e| format!("{fam} {what}: {e}: {text}"))?;
        if j.kty() != j.params().kty() { return Err(format!("{fam} {what}: kty {:?} but parameters of {:?}", j.kty(), j.params().kty())); }
        let has_private = mask != 0 || fam == "oct";
        if j.is_public() == has_private { return Err(format!("{fam} {what}, private members {mask:b}: is_public() = {}", j.is_public())); }
        if j.thumbprint_sha256_b64() != thumb { return Err(format!("{fam} {what}, private members {mask:b}: thumbprint differs from the bare public key's")); }
        match j.to_public() {
          None => if fam != "oct" { return Err(format!("{fam}: no public projection")); },
          Some(p) => {
            if fam == "oct" { return Err("oct key has a public projection".into()); }
            if !p.is_public() || p.kty() != j.kty() || p.params() != bare.params() { return Err(format!("{fam} {what}, private members {mask:b}: projection is not the bare public key: {}", serde_json::to_string(&p).unwrap())); }
            if p.to_public().as_ref() != Some(&p) { return Err("projection not idempotent".into()); }
            if p.thumbprint_sha256_b64() != thumb { return Err("projection changes the thumbprint".into()); }
            let text = serde_json::to_string(&p).unwrap();
            for (k, _) in &private { if text.contains(&format!("\"{k}\":")) { return Err(format!("{fam}: projection serialises private member {k}: {text}")); } }
          }
        }
      }
    }
  }
  Ok(())
}
/// D15 (open): "the declared key type always matches the family of parameters carried however the JWK was obtained" -
/// deserialisation takes kty and the (untagged) parameter members independently
fn deserialised_type_matches_params() -> Result<(), String> {
  for kty in ["EC", "OKP", "RSA", "oct"] { for fam in ["EC", "OKP", "RSA", "oct"] {
    let (public, _) = family(fam);
    let text = json_of(kty, &public, &[], false);
    if let Ok(j) = serde_json::from_str::<Jwk>(&text) {
      if j.kty() != j.params().kty() { return Err(format!("{text} is accepted with kty {:?} over parameters of {:?} (is_public() = {})", j.kty(), j.params().kty(), j.is_public())); }
    }
  } }
  Ok(())
}

fn main() {
  std::panic::set_hook(Box::new(|_| {}));
  w("jwk_thumbprint_and_projection_grid", thumbprint_and_projection_grid);
  w("jwk_deserialised_type_matches_params", deserialised_type_matches_params);
  w("jwk_rsa_each_private_member_alone", || {
    let mut base = JwkParamsRsa::new(); base.n = "n".into(); base.e = "e".into();
    let mk = |f: &dyn Fn(&mut JwkParamsRsa)| { let mut p = base.clone(); f(&mut p); p };
    let variants: Vec<(&str, JwkParamsRsa)> = vec![
      ("d", mk(&|p| p.d = s("x"))), ("p", mk(&|p| p.p = s("x"))), ("q", mk(&|p| p.q = s("x"))), ("dp", mk(&|p| p.dp = s("x"))),
      ("dq", mk(&|p| p.dq = s("x"))), ("qi", mk(&|p| p.qi = s("x"))),
      ("oth", mk(&|p| p.oth = Some(vec![JwkParamsRsaPrime { r: "r".into(), d: "d".into(), t: "t".into() }]))),
    ];
    for (name, p) in variants {
      if p.is_public() { return Err(format!("RSA params with private member `{name}` report is_public()")); }
      let j = Jwk::from_params(p.clone());
      if j.is_public() { return Err(format!("RSA JWK with private member `{name}` reports is_public()")); }
      let pubj = j.to_public().ok_or("no public projection")?;
      if !pubj.is_public() || pubj.params() != &JwkParams::Rsa(base.clone()) { return Err(format!("to_public of RSA key with `{name}` is not the bare public key")); }
      if pubj.to_public().as_ref() != Some(&pubj) { return Err("to_public not idempotent".into()); }
    }
    if !base.is_public() { return Err("bare RSA public params report !is_public()".into()); }
    Ok(())
  });
  w("jwk_set_params_family_must_match", || {
    let ec = JwkParamsEc { crv: "P-256".into(), x: "x".into(), y: "y".into(), d: None };
    let okp = JwkParamsOkp { crv: "Ed25519".into(), x: "x".into(), d: s("d") };
    for (kty, fam) in [(JwkType::Ec, "Ec"), (JwkType::Okp, "Okp"), (JwkType::Rsa, "Rsa"), (JwkType::Oct, "Oct")] {
      let mut j = Jwk::new(kty);
      let r1 = j.set_params(ec.clone()).is_ok();
      if j.kty() != j.params().kty() { return Err(format!("after set_params(EC) on a {fam} key: kty {:?} but params {:?}", j.kty(), j.params().kty())); }
      if r1 != (kty == JwkType::Ec) { return Err(format!("set_params(EC params) on {fam} key returned ok={r1}")); }
      let mut j = Jwk::new(kty);
      let r2 = j.set_params(okp.clone()).is_ok();
      if j.kty() != j.params().kty() { return Err(format!("after set_params(OKP) on a {fam} key: kty {:?} but params {:?}", j.kty(), j.params().kty())); }
      if r2 != (kty == JwkType::Okp) { return Err(format!("set_params(OKP params) on {fam} key returned ok={r2}")); }
    }
    Ok(())
  });
  w("jwk_ec_okp_projection", || {
    let ec = Jwk::from_params(JwkParamsEc { crv: "P-256".into(), x: "x".into(), y: "y".into(), d: s("d") });
    let p = ec.to_public().ok_or("none")?;
    if !p.is_public() || ec.is_public() || p.kty() != JwkType::Ec || p.thumbprint_sha256_b64() != ec.thumbprint_sha256_b64() { return Err("EC projection wrong".into()); }
    let okp = Jwk::from_params(JwkParamsOkp { crv: "Ed25519".into(), x: "x".into(), d: s("d") });
    let p = okp.to_public().ok_or("none")?;
    if !p.is_public() || okp.is_public() || p.kty() != JwkType::Okp || p.thumbprint_sha256_b64() != okp.thumbprint_sha256_b64() { return Err("OKP projection wrong".into()); }
    Ok(())
  });
}
