// Concrete witnesses for the `jwk` unit, run against the real crates (public API only).
use identity_jose::jwk::{Jwk, JwkParams, JwkParamsEc, JwkParamsOkp, JwkParamsRsa, JwkParamsRsaPrime, JwkType};
use std::panic::catch_unwind;

fn w(name: &str, f: impl FnOnce() -> Result<(), String> + std::panic::UnwindSafe) {
  match catch_unwind(f) {
    Ok(Ok(())) => println!("WITNESS {name} OK"),
    Ok(Err(e)) => println!("WITNESS {name} FAIL {e}"),
    Err(_) => println!("WITNESS {name} FAIL panicked"),
  }
}
fn s(x: &str) -> Option<String> { Some(x.to_string()) }

fn main() {
  std::panic::set_hook(Box::new(|_| {}));
  w("jwk_rsa_each_private_member_alone", || {
    let mut base = JwkParamsRsa::new(); base.n = "n".into(); base.e = "e".into();
    let mk = |f: &dyn Fn(&mut JwkParamsRsa)| { let mut p = base.clone(); f(&mut p); p };
    let variants: Vec<(&str, JwkParamsRsa)> = vec![
      ("d", mk(&|p| p.d = s("x"))), ("p", mk(&|p| p.p = s("x"))), ("q", mk(&|p| p.q = s("x"))), ("dp", mk(&|p| p.dp = s("x"))),
      ("dq", mk(&|p| p.dq = s("x"))), ("qi", mk(&|p| p.qi = s("x"))),
      ("oth", mk(&|p| p.oth = Some(vec![JwkParamsRsaPrime { r: "r".into(), d: "d".into(), t: "t".into() }]))),
    ];
    for (name, p) in variants {
      if p.is_public() { return Err(format!("RSA params with private member `{name}` report is_public()")); }
      let j = Jwk::from_params(p.clone());
      if j.is_public() { return Err(format!("RSA JWK with private member `{name}` reports is_public()")); }
      let pubj = j.to_public().ok_or("no public projection")?;
      if !pubj.is_public() || pubj.params() != &JwkParams::Rsa(base.clone()) { return Err(format!("to_public of RSA key with `{name}` is not the bare public key")); }
      if pubj.to_public().as_ref() != Some(&pubj) { return Err("to_public not idempotent".into()); }
    }
    if !base.is_public() { return Err("bare RSA public params report !is_public()".into()); }
    Ok(())
  });
  w("jwk_set_params_family_must_match", || {
    let ec = JwkParamsEc { crv: "P-256".into(), x: "x".into(), y: "y".into(), d: None };
    let okp = JwkParamsOkp { crv: "Ed25519".into(), x: "x".into(), d: s("d") };
    for (kty, fam) in [(JwkType::Ec, "Ec"), (JwkType::Okp, "Okp"), (JwkType::Rsa, "Rsa"), (JwkType::Oct, "Oct")] {
      let mut j = Jwk::new(kty);
      let r1 = j.set_params(ec.clone()).is_ok();
      if j.kty() != j.params().kty() { return Err(format!("after set_params(EC) on a {fam} key: kty {:?} but params {:?}", j.kty(), j.params().kty())); }
      if r1 != (kty == JwkType::Ec) { return Err(format!("set_params(EC params) on {fam} key returned ok={r1}")); }
      let mut j = Jwk::new(kty);
      let r2 = j.set_params(okp.clone()).is_ok();
      if j.kty() != j.params().kty() { return Err(format!("after set_params(OKP) on a {fam} key: kty {:?} but params {:?}", j.kty(), j.params().kty())); }
      if r2 != (kty == JwkType::Okp) { return Err(format!("set_params(OKP params) on {fam} key returned ok={r2}")); }
    }
    Ok(())
  });
  w("jwk_ec_okp_projection", || {
    let ec = Jwk::from_params(JwkParamsEc { crv: "P-256".into(), x: "x".into(), y: "y".into(), d: s("d") });
    let p = ec.to_public().ok_or("none")?;
    if !p.is_public() || ec.is_public() || p.kty() != JwkType::Ec || p.thumbprint_sha256_b64() != ec.thumbprint_sha256_b64() { return Err("EC projection wrong".into()); }
    let okp = Jwk::from_params(JwkParamsOkp { crv: "Ed25519".into(), x: "x".into(), d: s("d") });
    let p = okp.to_public().ok_or("none")?;
    if !p.is_public() || okp.is_public() || p.kty() != JwkType::Okp || p.thumbprint_sha256_b64() != okp.thumbprint_sha256_b64() { return Err("OKP projection wrong".into()); }
    Ok(())
  });
}
