// Concrete witnesses for the `jwt_claims` unit, run against the real crate through its public validator API
// (claims sets are wrapped into compact JWS with a dummy signature; the verifier accepts every signature).
use identity_core::common::{Object, Timestamp, Url};
use identity_core::convert::FromJson;
use identity_credential::credential::{Credential, Jwt};
use identity_credential::presentation::{JwtPresentationOptions, Presentation};
use identity_credential::validator::{DecodedJwtCredential, JwtCredentialValidator, JwtPresentationValidator, JwtPresentationValidationOptions};
use identity_document::document::CoreDocument;
use identity_document::verifiable::JwsVerificationOptions;
use identity_verification::jwk::Jwk;
use identity_verification::jws::{JwsVerifierFn, SignatureVerificationError, VerificationInput};
use identity_verification::jwu::encode_b64;
use std::panic::catch_unwind;

fn w(name: &str, f: impl FnOnce() -> Result<(), String> + std::panic::UnwindSafe) {
  match catch_unwind(f) {
    Ok(Ok(())) => println!("WITNESS {name} OK"),
    Ok(Err(e)) => println!("WITNESS {name} FAIL {e}"),
    Err(_) => println!("WITNESS {name} FAIL panicked"),
  }
}
const DID: &str = "did:example:issuer1234";
const MIN: i64 = -62167219200;
const MAX: i64 = 253402300799;
fn doc() -> CoreDocument {
  CoreDocument::from_json(&format!(r#"{{"id":"{DID}","verificationMethod":[{{"id":"{DID}#k","controller":"{DID}","type":"JsonWebKey","publicKeyJwk":{{"kty":"OKP","crv":"Ed25519","x":"11qYAYKxCrfVS_7TyWQHOg7hcvPapiMlrwIaaPcHURo"}}}}]}}"#)).unwrap()
}
fn jwt(claims: &str) -> Jwt {
  Jwt::new(format!("{}.{}.{}", encode_b64(format!(r#"{{"alg":"EdDSA","kid":"{DID}#k"}}"#)), encode_b64(claims), encode_b64([7u8; 64])))
}
fn accept_all() -> JwsVerifierFn<impl Fn(VerificationInput, &Jwk) -> Result<(), SignatureVerificationError>> {
  JwsVerifierFn::from(|_i: VerificationInput, _k: &Jwk| -> Result<(), SignatureVerificationError> { Ok(()) })
}
fn decode_vc(claims: &str) -> Result<Credential, String> {
  let r: Result<DecodedJwtCredential<Object>, _> = JwtCredentialValidator::with_signature_verifier(accept_all()).verify_signature(&jwt(claims), &[doc()], &JwsVerificationOptions::default());
  r.map(|t| t.credential).map_err(|e| format!("{e:?}"))
}
fn vc_claims(extra_top: &str, extra_vc: &str) -> String {
  format!(r#"{{ {extra_top} "iss":"{DID}", "vc": {{ {extra_vc} "@context":"https://www.w3.org/2018/credentials/v1","type":["VerifiableCredential"],"credentialSubject":{{"a":1}} }} }}"#)
}
fn decode_vp(claims: &str) -> Result<Presentation<Jwt>, String> {
  let v = JwtPresentationValidator::with_signature_verifier(accept_all());
  v.validate::<CoreDocument, Jwt, Object>(&jwt(claims), &doc(), &JwtPresentationValidationOptions::default()).map(|d| d.presentation).map_err(|e| format!("{e:?}"))
}

/// C05, bounded exhaustive over a value pool: every claim / credential / presentation member replaced by every value of a pool
/// of JSON junk (one member at a time, and every pair of members for the date / id members), through signature verification,
/// claim conversion and full validation with default options: an error or a value, never a panic
fn junk_claim_values_never_panic() -> Result<(), String> {
  use identity_credential::validator::{FailFast, JwtCredentialValidationOptions};
  let pool = ["null", "true", "0", "-1", "1.5", "1e30", "-1e30", "9223372036854775807", "-9223372036854775808", "18446744073709551615", "253402300800", "-62167219201",
    r#""""#, r#""x""#, r#""did:example:issuer1234""#, r#""did:example:%4""#, r#""http://x/1""#, r#""2020-01-01T00:00:00Z""#, r#""9999-12-31T23:59:60Z""#, "[]", "[1]", r#"["x"]"#, "[[]]", "{}", r#"{"id":5}"#, r#"{"id":"did:example:issuer1234"}"#, r#"{"id":"http://x/1","type":"RevocationBitmap2022","revocationBitmapIndex":"4294967296"}"#,
    r#"{"id":"http://x/1","type":"StatusList2021Entry","statusPurpose":"revocation","statusListIndex":"18446744073709551616","statusListCredential":"http://x/2"}"#];
  let top = ["iss", "sub", "nbf", "iat", "exp", "jti", "aud", "nonce", "vc", "vp"];
  let inner_vc = ["@context", "type", "credentialSubject", "issuer", "issuanceDate", "expirationDate", "credentialStatus", "id", "credentialSchema", "refreshService", "termsOfUse", "evidence", "nonTransferable", "proof", "extra"];
  let inner_vp = ["@context", "type", "verifiableCredential", "holder", "id", "refreshService", "termsOfUse", "proof", "extra"];
  fn build(top: &[(&str, &str)], inner_key: &str, inner: &[(&str, &str)], is_vp: bool) -> String {
    let mut t: Vec<(String, String)> = vec![("iss".into(), format!("\"{DID}\"")), ("nbf".into(), "1000".into())];
    let mut i: Vec<(String, String)> = if is_vp { vec![("@context".into(), "\"https://www.w3.org/2018/credentials/v1\"".into()), ("type".into(), "\"VerifiablePresentation\"".into()), ("verifiableCredential".into(), "[]".into())] }
      else { vec![("@context".into(), "\"https://www.w3.org/2018/credentials/v1\"".into()), ("type".into(), "[\"VerifiableCredential\"]".into()), ("credentialSubject".into(), "{\"a\":1}".into())] };
    for (k, v) in inner { i.retain(|(k2, _)| k2 != k); i.push((k.to_string(), v.to_string())); }
    let body = i.iter().map(|(k, v)| format!("\"{k}\":{v}")).collect::<Vec<_>>().join(",");
    t.push((inner_key.to_owned(), format!("{{{body}}}")));
    for (k, v) in top { t.retain(|(k2, _)| k2 != k); t.push((k.to_string(), v.to_string())); }
    format!("{{{}}}", t.iter().map(|(k, v)| format!("\"{k}\":{v}")).collect::<Vec<_>>().join(","))
  }
  fn probe(claims: String) -> Result<(), String> {
    let c2 = claims.clone();
    catch_unwind(move || {
      let j = jwt(&c2);
      let v = JwtCredentialValidator::with_signature_verifier(accept_all());
      let r: Result<DecodedJwtCredential<Object>, _> = v.verify_signature(&j, &[doc()], &JwsVerificationOptions::default());
      if let Ok(d) = r { let _ = (d.credential.issuer.url().as_str().len(), d.credential.issuance_date.to_unix(), d.credential.serialize_jwt(None).map(|s| s.len())); }
      for ff in [FailFast::FirstError, FailFast::AllErrors] { let r: Result<DecodedJwtCredential<Object>, _> = v.validate(&j, &doc(), &JwtCredentialValidationOptions::default(), ff); let _ = r.map_err(|e| e.to_string()); }
      let pv = JwtPresentationValidator::with_signature_verifier(accept_all());
      let r = pv.validate::<CoreDocument, Jwt, Object>(&j, &doc(), &JwtPresentationValidationOptions::default());
      if let Ok(d) = r { let _ = (d.presentation.holder.as_str().len(), d.presentation.verifiable_credential.len(), d.presentation.serialize_jwt(&Default::default()).map(|s| s.len())); }
      let _ = identity_credential::validator::JwtPresentationValidatorUtils::extract_holder::<identity_did::CoreDID>(&j);
      let _ = identity_credential::validator::JwtCredentialValidatorUtils::extract_issuer_from_jwt::<identity_did::CoreDID>(&j);
    }).map_err(|_| format!("a validator PANICS for claims {claims}"))
  }
  let mut n = 0u32;
  for is_vp in [false, true] {
    let (ik, inner) = if is_vp { ("vp", &inner_vp[..]) } else { ("vc", &inner_vc[..]) };
    for v in pool {
      for k in top { probe(build(&[(k, v)], ik, &[], is_vp))?; n += 1; }
      for k in inner { probe(build(&[], ik, &[(k, v)], is_vp))?; n += 1; }
    }
    // pairs over the members that interact (dates, ids, issuer / holder, status)
    let tp = ["nbf", "iat", "exp", "jti", "sub", "iss"];
    let ip: &[&str] = if is_vp { &["id", "holder", "verifiableCredential"] } else { &["id", "issuer", "issuanceDate", "expirationDate", "credentialSubject", "credentialStatus"] };
    for a in tp { for va in pool.iter().step_by(2) { for b in ip { for vb in pool.iter().skip(1).step_by(2).chain(pool.iter().take(1)) { probe(build(&[(a, va)], ik, &[(b, vb)], is_vp))?; n += 1; } } } }
  }
  // the claims themselves not an object / the vc not an object / deep nesting
  for c in ["null", "[]", "5", r#""x""#, "{}", r#"{"vc":null}"#, r#"{"vc":[]}"#, r#"{"vp":7}"#] { probe(c.to_owned())?; n += 1; }
  let deep = format!("{}1{}", "[".repeat(100), "]".repeat(100));
  probe(build(&[], "vc", &[("credentialSubject", &deep)], false))?; probe(build(&[("aud", &deep)], "vp", &[], true))?;
  if n < 10_000 { return Err(format!("only {n} inputs")); }
  Ok(())
}

/// D5b seen from the validators: the issuer / holder DID of a received token reaches CoreDID::parse, so the dependency's
/// panic on a trailing percent triple is reachable by whoever sends the token (kept apart from the junk sweep above so that
/// the sweep stays sensitive to everything else)
fn percent_triple_issuer_reaches_the_validators() -> Result<(), String> {
  use identity_credential::validator::{FailFast, JwtCredentialValidationOptions};
  for id in ["did:example:%41", "did:example:a%2F"] {
    let vc = format!(r#"{{"iss":"{id}","nbf":1000,"vc":{{"@context":"https://www.w3.org/2018/credentials/v1","type":["VerifiableCredential"],"credentialSubject":{{"a":1}}}}}}"#);
    let vp = format!(r#"{{"iss":"{id}","nbf":1000,"vp":{{"@context":"https://www.w3.org/2018/credentials/v1","type":"VerifiablePresentation","verifiableCredential":[]}}}}"#);
    let (j, id2) = (jwt(&vc), id.to_owned());
    catch_unwind(move || { let r: Result<DecodedJwtCredential<Object>, _> = JwtCredentialValidator::with_signature_verifier(accept_all()).validate(&j, &doc(), &JwtCredentialValidationOptions::default(), FailFast::FirstError); r.is_ok() })
      .map_err(|_| format!("JwtCredentialValidator::validate PANICS for a token whose iss is {id2}"))?;
    let (j, id2) = (jwt(&vp), id.to_owned());
    catch_unwind(move || JwtPresentationValidator::with_signature_verifier(accept_all()).validate::<CoreDocument, Jwt, Object>(&j, &doc(), &JwtPresentationValidationOptions::default()).is_ok())
      .map_err(|_| format!("JwtPresentationValidator::validate PANICS for a token whose iss is {id2}"))?;
  }
  Ok(())
}

fn main() {
  std::panic::set_hook(Box::new(|_| {}));
  w("jc_junk_claim_values_never_panic", junk_claim_values_never_panic);
  w("jc_percent_triple_issuer_reaches_the_validators", percent_triple_issuer_reaches_the_validators);
  w("jc_dates_window_and_precedence", || {
    for s in [MIN, 0, MAX] {
      for c in [vc_claims(&format!(r#""nbf":{s},"#), ""), vc_claims(&format!(r#""iat":{s},"#), ""), vc_claims(&format!(r#""nbf":{s},"iat":5,"#), "")] {
        let cr = decode_vc(&c)?; if cr.issuance_date != Timestamp::from_unix(s).unwrap() { return Err(format!("issuance date for {s}")); }
      }
    }
    for bad in [MAX + 1, MIN - 1, i64::MAX, i64::MIN] {
      if decode_vc(&vc_claims(&format!(r#""nbf":{bad},"#), "")).is_ok() { return Err(format!("nbf {bad} accepted")); }
      if decode_vc(&vc_claims(&format!(r#""iat":{bad},"#), "")).is_ok() { return Err(format!("iat {bad} accepted")); }
      if decode_vc(&vc_claims(&format!(r#""nbf":{bad},"iat":5,"#), "")).is_ok() { return Err(format!("out-of-range nbf {bad} silently replaced by iat")); }
      if decode_vc(&vc_claims(&format!(r#""nbf":5,"exp":{bad},"#), "")).is_ok() { return Err(format!("exp {bad} accepted")); }
    }
    if decode_vc(&vc_claims("", "")).is_ok() { return Err("claims without nbf and iat accepted".into()); }
    Ok(())
  });
  w("jc_credential_duplicates_must_agree", || {
    let ok = |top: &str, vc: &str| decode_vc(&vc_claims(&format!(r#""nbf":1000,{top}"#), vc));
    // expirationDate inside vc needs a matching exp
    if ok("", r#""expirationDate":"2000-01-01T00:00:00Z","#).is_ok() { return Err("vc.expirationDate without exp accepted".into()); }
    if ok(r#""exp":5,"#, r#""expirationDate":"2000-01-01T00:00:00Z","#).is_ok() { return Err("vc.expirationDate != exp accepted".into()); }
    ok(r#""exp":946684800,"#, r#""expirationDate":"2000-01-01T00:00:00Z","#).map_err(|e| format!("matching exp rejected: {e}"))?;
    // id / issuer / issuanceDate / subject id
    if ok("", r#""id":"http://x/1","#).is_ok() { return Err("vc.id without jti accepted".into()); }
    if ok(r#""jti":"http://x/2","#, r#""id":"http://x/1","#).is_ok() { return Err("vc.id != jti accepted".into()); }
    if ok("", r#""issuer":"did:example:other","#).is_ok() { return Err("vc.issuer != iss accepted".into()); }
    if ok("", r#""issuanceDate":"2000-01-01T00:00:00Z","#).is_ok() { return Err("vc.issuanceDate != nbf accepted".into()); }
    let sub_in_vc = format!(r#"{{ "nbf":1000, "iss":"{DID}", "vc": {{ "@context":"https://www.w3.org/2018/credentials/v1","type":["VerifiableCredential"],"credentialSubject":{{"id":"did:example:s","a":1}} }} }}"#);
    if decode_vc(&sub_in_vc).is_ok() { return Err("credentialSubject.id without sub accepted".into()); }
    Ok(())
  });
  w("jc_credential_roundtrip", || {
    for issuer in [format!(r#""{DID}""#), format!(r#"{{"id":"{DID}","name":"Example University"}}"#)] {
      let c: Credential = Credential::from_json(&format!(r#"{{"@context":"https://www.w3.org/2018/credentials/v1","id":"http://example.edu/credentials/3732","type":["VerifiableCredential","X"],"issuer":{issuer},"issuanceDate":"2010-01-01T19:23:24Z","expirationDate":"2020-01-01T19:23:24Z","credentialSubject":{{"id":"did:example:s","degree":"B"}},"nonTransferable":true}}"#)).map_err(|e| e.to_string())?;
      let claims = c.serialize_jwt(None).map_err(|e| e.to_string())?;
      let v: serde_json::Value = serde_json::from_str(&claims).unwrap();
      for k in ["id", "issuer", "issuanceDate", "expirationDate"] { if v["vc"].get(k).is_some() { return Err(format!("vc.{k} is carried twice")); } }
      let back = decode_vc(&claims)?;
      if back != c { return Err(format!("round trip differs for issuer {issuer}")); }
    }
    // an explicit nonTransferable = false is a value, not an absence
    for nt in ["true", "false"] {
      let c: Credential = Credential::from_json(&format!(r#"{{"@context":"https://www.w3.org/2018/credentials/v1","type":["VerifiableCredential"],"issuer":"{DID}","issuanceDate":"2010-01-01T19:23:24Z","credentialSubject":{{"id":"did:example:s"}},"nonTransferable":{nt}}}"#)).map_err(|e| e.to_string())?;
      let back = decode_vc(&c.serialize_jwt(None).map_err(|e| e.to_string())?)?;
      if back.non_transferable != c.non_transferable { return Err(format!("nonTransferable {:?} comes back as {:?}", c.non_transferable, back.non_transferable)); }
    }
    Ok(())
  });
  w("jc_presentation_duplicates_must_agree", || {
    let base = |top: &str, vp: &str| format!(r#"{{ {top} "iss":"{DID}", "vp": {{ {vp} "@context":"https://www.w3.org/2018/credentials/v1","type":"VerifiablePresentation","verifiableCredential":[] }} }}"#);
    decode_vp(&base("", "")).map_err(|e| format!("plain presentation rejected: {e}"))?;
    if decode_vp(&base("", r#""id":"http://x/1","#)).is_ok() { return Err("vp.id without jti accepted".into()); }
    if decode_vp(&base(r#""jti":"http://x/2","#, r#""id":"http://x/1","#)).is_ok() { return Err("vp.id != jti accepted".into()); }
    decode_vp(&base(r#""jti":"http://x/1","#, r#""id":"http://x/1","#)).map_err(|e| format!("matching jti rejected: {e}"))?;
    if decode_vp(&base("", r#""holder":"did:example:other","#)).is_ok() { return Err("vp.holder != iss accepted".into()); }
    Ok(())
  });
  w("jc_presentation_roundtrip", || {
    let p: Presentation<Jwt> = Presentation::from_json(&format!(r#"{{"id":"http://example.edu/p/1","@context":"https://www.w3.org/2018/credentials/v1","type":"VerifiablePresentation","holder":"{DID}"}}"#)).map_err(|e| e.to_string())?;
    let opts = JwtPresentationOptions { expiration_date: Some(Timestamp::from_unix(MAX).unwrap()), issuance_date: Some(Timestamp::from_unix(1000).unwrap()), audience: Some(Url::parse("https://aud.example").unwrap()), custom_claims: None };
    let claims = p.serialize_jwt(&opts).map_err(|e| e.to_string())?;
    let back = decode_vp(&claims)?;
    if back != p { return Err("presentation round trip differs".into()); }
    Ok(())
  });
}
