// Concrete witnesses for the `jwt_claims` unit, run against the real crate through its public validator API
// (claims sets are wrapped into compact JWS with a dummy signature; the verifier accepts every signature).
use identity_core::common::{Object, Timestamp, Url};
use identity_core::convert::FromJson;
use identity_credential::credential::{Credential, Jwt};
use identity_credential::presentation::{JwtPresentationOptions, Presentation};
use identity_credential::validator::{DecodedJwtCredential, JwtCredentialValidator, JwtPresentationValidator, JwtPresentationValidationOptions};
use identity_document::document::CoreDocument;
use identity_document::verifiable::JwsVerificationOptions;
use identity_verification::jwk::Jwk;
use identity_verification::jws::{JwsVerifierFn, SignatureVerificationError, VerificationInput};
use identity_verification::jwu::encode_b64;
use std::panic::catch_unwind;

fn w(name: &str, f: impl FnOnce() -> Result<(), String> + std::panic::UnwindSafe) {
  match catch_unwind(f) {
    Ok(Ok(())) => println!("WITNESS {name} OK"),
    Ok(Err(e)) => println!("WITNESS {name} FAIL {e}"),
    Err(_) => println!("WITNESS {name} FAIL panicked"),
  }
}
const DID: &str = "did:example:issuer1234";
const MIN: i64 = -62167219200;
const MAX: i64 = 253402300799;
fn doc() -> CoreDocument {
  CoreDocument::from_json(&format!(r#"{{"id":"{DID}","verificationMethod":[{{"id":"{DID}#k","controller":"{DID}","type":"JsonWebKey","publicKeyJwk":{{"kty":"OKP","crv":"Ed25519","x":"11qYAYKxCrfVS_7TyWQHOg7hcvPapiMlrwIaaPcHURo"}}}}]}}"#)).unwrap()
}
fn jwt(claims: &str) -> Jwt {
  Jwt::new(format!("{}.{}.{}", encode_b64(format!(r#"{{"alg":"EdDSA","kid":"{DID}#k"}}"#)), encode_b64(claims), encode_b64([7u8; 64])))
}
fn accept_all() -> JwsVerifierFn<impl Fn(VerificationInput, &Jwk) -> Result<(), SignatureVerificationError>> {
  JwsVerifierFn::from(|_i: VerificationInput, _k: &Jwk| -> Result<(), SignatureVerificationError> { Ok(()) })
}
fn decode_vc(claims: &str) -> Result<Credential, String> {
  let r: Result<DecodedJwtCredential<Object>, _> = JwtCredentialValidator::with_signature_verifier(accept_all()).verify_signature(&jwt(claims), &[doc()], &JwsVerificationOptions::default());
  r.map(|t| t.credential).map_err(|e| format!("{e:?}"))
}
fn vc_claims(extra_top: &str, extra_vc: &str) -> String {
  format!(r#"{{ {extra_top} "iss":"{DID}", "vc": {{ {extra_vc} "@context":"https://www.w3.org/2018/credentials/v1","type":["VerifiableCredential"],"credentialSubject":{{"a":1}} }} }}"#)
}
fn decode_vp(claims: &str) -> Result<Presentation<Jwt>, String> {
  let v = JwtPresentationValidator::with_signature_verifier(accept_all());
  v.validate::<CoreDocument, Jwt, Object>(&jwt(claims), &doc(), &JwtPresentationValidationOptions::default()).map(|d| d.presentation).map_err(|e| format!("{e:?}"))
}

fn main() {
  std::panic::set_hook(Box::new(|_| {}));
  w("jc_dates_window_and_precedence", || {
    for s in [MIN, 0, MAX] {
      for c in [vc_claims(&format!(r#""nbf":{s},"#), ""), vc_claims(&format!(r#""iat":{s},"#), ""), vc_claims(&format!(r#""nbf":{s},"iat":5,"#), "")] {
        let cr = decode_vc(&c)?; if cr.issuance_date != Timestamp::from_unix(s).unwrap() { return Err(format!("issuance date for {s}")); }
      }
    }
    for bad in [MAX + 1, MIN - 1, i64::MAX, i64::MIN] {
      if decode_vc(&vc_claims(&format!(r#""nbf":{bad},"#), "")).is_ok() { return Err(format!("nbf {bad} accepted")); }
      if decode_vc(&vc_claims(&format!(r#""iat":{bad},"#), "")).is_ok() { return Err(format!("iat {bad} accepted")); }
      if decode_vc(&vc_claims(&format!(r#""nbf":{bad},"iat":5,"#), "")).is_ok() { return Err(format!("out-of-range nbf {bad} silently replaced by iat")); }
      if decode_vc(&vc_claims(&format!(r#""nbf":5,"exp":{bad},"#), "")).is_ok() { return Err(format!("exp {bad} accepted")); }
    }
    if decode_vc(&vc_claims("", "")).is_ok() { return Err("claims without nbf and iat accepted".into()); }
    Ok(())
  });
  w("jc_credential_duplicates_must_agree", || {
    let ok = |top: &str, vc: &str| decode_vc(&vc_claims(&format!(r#""nbf":1000,{top}"#), vc));
    // expirationDate inside vc needs a matching exp
    if ok("", r#""expirationDate":"2000-01-01T00:00:00Z","#).is_ok() { return Err("vc.expirationDate without exp accepted".into()); }
    if ok(r#""exp":5,"#, r#""expirationDate":"2000-01-01T00:00:00Z","#).is_ok() { return Err("vc.expirationDate != exp accepted".into()); }
    ok(r#""exp":946684800,"#, r#""expirationDate":"2000-01-01T00:00:00Z","#).map_err(|e| format!("matching exp rejected: {e}"))?;
    // id / issuer / issuanceDate / subject id
    if ok("", r#""id":"http://x/1","#).is_ok() { return Err("vc.id without jti accepted".into()); }
    if ok(r#""jti":"http://x/2","#, r#""id":"http://x/1","#).is_ok() { return Err("vc.id != jti accepted".into()); }
    if ok("", r#""issuer":"did:example:other","#).is_ok() { return Err("vc.issuer != iss accepted".into()); }
    if ok("", r#""issuanceDate":"2000-01-01T00:00:00Z","#).is_ok() { return Err("vc.issuanceDate != nbf accepted".into()); }
    let sub_in_vc = format!(r#"{{ "nbf":1000, "iss":"{DID}", "vc": {{ "@context":"https://www.w3.org/2018/credentials/v1","type":["VerifiableCredential"],"credentialSubject":{{"id":"did:example:s","a":1}} }} }}"#);
    if decode_vc(&sub_in_vc).is_ok() { return Err("credentialSubject.id without sub accepted".into()); }
    Ok(())
  });
  w("jc_credential_roundtrip", || {
    for issuer in [format!(r#""{DID}""#), format!(r#"{{"id":"{DID}","name":"Example University"}}"#)] {
      let c: Credential = Credential::from_json(&format!(r#"{{"@context":"https://www.w3.org/2018/credentials/v1","id":"http://example.edu/credentials/3732","type":["VerifiableCredential","X"],"issuer":{issuer},"issuanceDate":"2010-01-01T19:23:24Z","expirationDate":"2020-01-01T19:23:24Z","credentialSubject":{{"id":"did:example:s","degree":"B"}},"nonTransferable":true}}"#)).map_err(|e| e.to_string())?;
      let claims = c.serialize_jwt(None).map_err(|e| e.to_string())?;
      let v: serde_json::Value = serde_json::from_str(&claims).unwrap();
      for k in ["id", "issuer", "issuanceDate", "expirationDate"] { if v["vc"].get(k).is_some() { return Err(format!("vc.{k} is carried twice")); } }
      let back = decode_vc(&claims)?;
      if back != c { return Err(format!("round trip differs for issuer {issuer}")); }
    }
    // an explicit nonTransferable = false is a value, not an absence
    for nt in ["true", "false"] {
      let c: Credential = Credential::from_json(&format!(r#"{{"@context":"https://www.w3.org/2018/credentials/v1","type":["VerifiableCredential"],"issuer":"{DID}","issuanceDate":"2010-01-01T19:23:24Z","credentialSubject":{{"id":"did:example:s"}},"nonTransferable":{nt}}}"#)).map_err(|e| e.to_string())?;
      let back = decode_vc(&c.serialize_jwt(None).map_err(|e| e.to_string())?)?;
      if back.non_transferable != c.non_transferable { return Err(format!("nonTransferable {:?} comes back as {:?}", c.non_transferable, back.non_transferable)); }
    }
    Ok(())
  });
  w("jc_presentation_duplicates_must_agree", || {
    let base = |top: &str, vp: &str| format!(r#"{{ {top} "iss":"{DID}", "vp": {{ {vp} "@context":"https://www.w3.org/2018/credentials/v1","type":"VerifiablePresentation","verifiableCredential":[] }} }}"#);
    decode_vp(&base("", "")).map_err(|e| format!("plain presentation rejected: {e}"))?;
    if decode_vp(&base("", r#""id":"http://x/1","#)).is_ok() { return Err("vp.id without jti accepted".into()); }
    if decode_vp(&base(r#""jti":"http://x/2","#, r#""id":"http://x/1","#)).is_ok() { return Err("vp.id != jti accepted".into()); }
    decode_vp(&base(r#""jti":"http://x/1","#, r#""id":"http://x/1","#)).map_err(|e| format!("matching jti rejected: {e}"))?;
    if decode_vp(&base("", r#""holder":"did:example:other","#)).is_ok() { return Err("vp.holder != iss accepted".into()); }
    Ok(())
  });
  w("jc_presentation_roundtrip", || {
    let p: Presentation<Jwt> = Presentation::from_json(&format!(r#"{{"id":"http://example.edu/p/1","@context":"https://www.w3.org/2018/credentials/v1","type":"VerifiablePresentation","holder":"{DID}"}}"#)).map_err(|e| e.to_string())?;
    let opts = JwtPresentationOptions { expiration_date: Some(Timestamp::from_unix(MAX).unwrap()), issuance_date: Some(Timestamp::from_unix(1000).unwrap()), audience: Some(Url::parse("https://aud.example").unwrap()), custom_claims: None };
    let claims = p.serialize_jwt(&opts).map_err(|e| e.to_string())?;
    let back = decode_vp(&claims)?;
    if back != p { return Err("presentation round trip differs".into()); }
    Ok(())
  });
}
