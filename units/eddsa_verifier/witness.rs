// Concrete witnesses for the `eddsa_verifier` unit (public API; RFC 8037 appendix A.4 test vector).
use identity_eddsa_verifier::Ed25519Verifier;
use identity_jose::jwk::{Jwk, JwkParamsEc, JwkParamsOkp};
use identity_jose::jws::{JwsAlgorithm, VerificationInput};
use identity_jose::jwu::decode_b64;
use std::panic::catch_unwind;
fn w(name: &str, f: impl FnOnce() -> Result<(), String> + std::panic::UnwindSafe) {
  match catch_unwind(f) {
    Ok(Ok(())) => println!("WITNESS {name} OK"),
    Ok(Err(e)) => println!("WITNESS {name} FAIL {e}"),
    Err(_) => println!("WITNESS {name} FAIL panicked"),
  }
}
const X: &str = "11qYAYKxCrfVS_7TyWQHOg7hcvPapiMlrwIaaPcHURo";
const INPUT: &str = "eyJhbGciOiJFZERTQSJ9.RXhhbXBsZSBvZiBFZDI1NTE5IHNpZ25pbmc";
const SIG: &str = "hgyY0il_MGCjP0JzlnLWG1PPOt7-09PGcvMg3AIbQR6dWbhijcNR4ki4iylGjg5BhVsPt9g7sVvpAr_MuM0KAg";
fn okp(crv: &str, x: &str) -> Jwk { let mut p = JwkParamsOkp::new(); p.crv = crv.to_owned(); p.x = x.to_owned(); Jwk::from_params(p) }
fn run(k: &Jwk, input: &[u8], sig: &[u8]) -> bool {
  Ed25519Verifier::verify(VerificationInput { alg: JwsAlgorithm::EdDSA, signing_input: input.to_vec().into(), decoded_signature: sig.to_vec().into() }, k).is_ok()
}
fn main() {
  std::panic::set_hook(Box::new(|_| {}));
  w("ed_signature_is_bound_exactly_as_received", || {
    let k = okp("Ed25519", X);
    let sig = decode_b64(SIG).unwrap();
    if !run(&k, INPUT.as_bytes(), &sig) { return Err("RFC 8037 A.4 vector rejected".into()); }
    // every single-bit flip of the signature, and of the signing input, fails
    for i in 0..sig.len() { for bit in 0..8 { let mut s = sig.clone(); s[i] ^= 1 << bit; if run(&k, INPUT.as_bytes(), &s) { return Err(format!("signature with bit {bit} of byte {i} flipped accepted")); } } }
    for i in 0..INPUT.len() { let mut m = INPUT.as_bytes().to_vec(); m[i] ^= 1; if run(&k, &m, &sig) { return Err(format!("signing input with byte {i} changed accepted")); } }
    // a signature that is not exactly 64 bytes is rejected: trailing bytes, truncation, empty
    let mut long = sig.clone(); long.push(0);
    if run(&k, INPUT.as_bytes(), &long) { return Err("65-byte signature (genuine signature + one extra byte) accepted".into()); }
    let mut longer = sig.clone(); longer.extend_from_slice(&sig);
    if run(&k, INPUT.as_bytes(), &longer) { return Err("128-byte signature accepted".into()); }
    if run(&k, INPUT.as_bytes(), &sig[..63]) { return Err("63-byte signature accepted".into()); }
    if run(&k, INPUT.as_bytes(), &[]) { return Err("empty signature accepted".into()); }
    Ok(())
  });
  w("ed_key_type_and_curve", || {
    let sig = decode_b64(SIG).unwrap();
    let mut ec = JwkParamsEc::new(); ec.crv = "P-256".to_owned(); ec.x = X.to_owned(); ec.y = X.to_owned();
    for (k, what) in [
      (okp("X25519", X), "an X25519 key"), (okp("Ed448", X), "an Ed448 key"), (Jwk::from_params(ec), "an EC key"),
      (okp("Ed25519", &X[..40]), "a truncated x"), (okp("Ed25519", &format!("{X}AA")), "an over-long x"), (okp("Ed25519", "!!"), "an undecodable x"),
    ] {
      if run(&k, INPUT.as_bytes(), &sig) { return Err(format!("verification under {what} accepted")); }
    }
    Ok(())
  });
}
