// Concrete witnesses for the `revocation_bitmap` unit, run against the real crate (public API only).
use identity_core::common::Url;
use identity_credential::revocation::RevocationBitmap;
use identity_did::DIDUrl;
use identity_document::service::{Service, ServiceEndpoint};
use identity_core::common::Object;
use std::panic::catch_unwind;

fn w(name: &str, f: impl FnOnce() -> Result<(), String> + std::panic::UnwindSafe) {
  match catch_unwind(f) {
    Ok(Ok(())) => println!("WITNESS {name} OK"),
    Ok(Err(e)) => println!("WITNESS {name} FAIL {e}"),
    Err(_) => println!("WITNESS {name} FAIL panicked"),
  }
}
fn roundtrip(b: &RevocationBitmap) -> Result<(), String> {
  let svc = b.to_service(DIDUrl::parse("did:example:1#rev").unwrap()).map_err(|e| format!("to_service: {e}"))?;
  match RevocationBitmap::try_from(&svc) { Ok(b2) if &b2 == b => Ok(()), Ok(_) => Err("decoded to a different set".into()), Err(e) => Err(format!("own endpoint rejected: {e}")) }
}
fn main() {
  std::panic::set_hook(Box::new(|_| {}));
  w("rb_roundtrip_small_sets", || { for n in 0..12u32 { let mut b = RevocationBitmap::new(); for i in 0..n { b.revoke(i * 7 + 1); } roundtrip(&b).map_err(|e| format!("{n} indices: {e}"))?; } Ok(()) });
  w("rb_roundtrip_larger_sets", || {
    for n in [16u32, 17, 40, 100, 1000, 30000] { let mut b = RevocationBitmap::new(); for i in 0..n { b.revoke(i.wrapping_mul(2654435761) % (if n > 10000 { 4_000_000_000 } else { 100000 })); } roundtrip(&b).map_err(|e| format!("{n} pseudo-random indices: {e}"))?; }
    let mut b = RevocationBitmap::new(); for i in 0..5u32 { b.revoke(i * 70000); } roundtrip(&b).map_err(|e| format!("5 containers: {e}"))?;
    Ok(())
  });
  w("rb_legacy_endpoint_decodes", || {
    // Base64(Base64Url(zlib(bitmap))): the pre-#1291 double encoding, vector from the specification tests
    let url = "data:application/octet-stream;base64,ZUp5ek1tQmdZR0lBQVVZZ1pHQ1FBR0laSUdabDZHUGN3UW9BRXVvQjlB";
    let svc = Service::builder(Object::new()).id(DIDUrl::parse("did:example:1#rev").unwrap()).type_(RevocationBitmap::TYPE)
      .service_endpoint(ServiceEndpoint::One(Url::parse(url).unwrap())).build().map_err(|e| e.to_string())?;
    let b = RevocationBitmap::try_from(&svc).map_err(|e| format!("legacy endpoint rejected: {e}"))?;
    if !(b.is_revoked(5) && b.is_revoked(398) && b.is_revoked(67000) && b.len() == 3) { return Err("legacy endpoint decoded to the wrong set".into()); }
    Ok(())
  });
  w("rb_revoke_unrevoke_exact", || {
    let mut b = RevocationBitmap::new();
    for i in [3u32, 9, 254, 65536] { b.revoke(i); }
    b.unrevoke(9); b.revoke(3);
    for i in 0..70000u32 { if b.is_revoked(i) != [3u32, 254, 65536].contains(&i) { return Err(format!("membership of {i} wrong")); } }
    Ok(())
  });
  w("rb_document_revoke_unrevoke_exact_indices", || {
    use identity_core::convert::FromJson;
    use identity_credential::revocation::RevocationDocumentExt;
    use identity_document::document::CoreDocument;
    let sid = DIDUrl::parse("did:example:1#rev").unwrap();
    let mut d = CoreDocument::from_json(r#"{"id":"did:example:1"}"#).unwrap();
    d.insert_service(RevocationBitmap::new().to_service(sid.clone()).unwrap()).map_err(|e| format!("setup: {e}"))?;
    let members = |d: &CoreDocument, probe: &[u32]| -> Vec<u32> { let b = d.resolve_revocation_bitmap((&sid).into()).unwrap(); probe.iter().cloned().filter(|i| b.is_revoked(*i)).collect() };
    let probe = [3u32, 5, 7, 9, 11, 65536];
    let steps: [(&str, &[u32], Vec<u32>); 9] = [
      ("revoke", &[5], vec![5]), ("revoke", &[7, 5], vec![5, 7]), ("revoke", &[9, 9, 3], vec![3, 5, 7, 9]),
      ("unrevoke", &[7, 11], vec![3, 5, 9]), ("unrevoke", &[3, 42], vec![5, 9]), ("revoke", &[65536, 5], vec![5, 9, 65536]),
      ("unrevoke", &[5, 9, 65536], vec![]), ("revoke", &[11], vec![11]), ("unrevoke", &[11], vec![]),
    ];
    for (op, idx, want) in steps {
      if op == "revoke" { d.revoke_credentials(&sid, idx) } else { d.unrevoke_credentials(&sid, idx) }.map_err(|e| format!("{op} {idx:?}: {e}"))?;
      let got = members(&d, &probe);
      if got != want { return Err(format!("after {op} {idx:?}: members among {probe:?} are {got:?}, expected {want:?}")); }
    }
    Ok(())
  });
}
