// Concrete witnesses for the `revocation_bitmap` unit, run against the real crate (public API only).
use identity_core::common::Url;
use identity_credential::revocation::RevocationBitmap;
use identity_did::DIDUrl;
use identity_document::service::{Service, ServiceEndpoint};
use identity_core::common::Object;
use std::panic::catch_unwind;

fn w(name: &str, f: impl FnOnce() -> Result<(), String> + std::panic::UnwindSafe) {
  match catch_unwind(f) {
    Ok(Ok(())) => println!("WITNESS {name} OK"),
    Ok(Err(e)) => println!("WITNESS {name} FAIL {e}"),
    Err(_) => println!("WITNESS {name} FAIL panicked"),
  }
}
fn roundtrip(b: &RevocationBitmap) -> Result<(), String> {
  let svc = b.to_service(DIDUrl::parse("did:example:1#rev").unwrap()).map_err(|e| format!("to_service: {e}"))?;
  match RevocationBitmap::try_from(&svc) { Ok(b2) if &b2 == b => Ok(()), Ok(_) => Err("decoded to a different set".into()), Err(e) => Err(format!("own endpoint rejected: {e}")) }
}
/// C05, bounded exhaustive + structured: endpoints whose payload is junk at every layer (data-url prefix, base64, legacy
/// double encoding, zlib stream, roaring serialisation) give an error or a bitmap whose accessors work - never a panic
fn junk_endpoints_never_panic() -> Result<(), String> {
  use std::io::Write;
  fn svc(url: &str) -> Option<Service> {
    let u = Url::parse(url).ok()?;
    Service::builder(Object::new()).id(DIDUrl::parse("did:example:1#rev").unwrap()).type_(RevocationBitmap::TYPE).service_endpoint(ServiceEndpoint::One(u)).build().ok()
  }
  fn b64url(b: &[u8]) -> String { identity_core::convert::BaseEncoding::encode(b, identity_core::convert::Base::Base64Url) }
  fn zlib(b: &[u8]) -> Vec<u8> { let mut e = flate2::write::ZlibEncoder::new(Vec::new(), flate2::Compression::default()); e.write_all(b).unwrap(); e.finish().unwrap() }
  fn probe(what: String, url: String) -> Result<bool, String> {
    let Some(s) = svc(&url) else { return Ok(false) };
    catch_unwind(move || match RevocationBitmap::try_from(&s) {
      Ok(b) => { let _ = (b.len(), b.is_empty(), b.is_revoked(0), b.is_revoked(u32::MAX), b.to_service(DIDUrl::parse("did:example:1#x").unwrap()).is_ok()); true }
      Err(e) => { let _ = e.to_string(); false }
    }).map_err(|_| format!("RevocationBitmap::try_from PANICS for {what}"))
  }
  const P: &str = "data:application/octet-stream;base64,";
  let mut n = 0u32;
  // 1. every string of up to 4 characters over a base64 / junk alphabet directly after the prefix
  let alphabet = ['e', 'J', 'Z', 'U', 'A', '=', '-', '_', '+', '/', '%', '.'];
  let mut cur: Vec<usize> = vec![];
  loop {
    let mut k = cur.len();
    loop {
      if k == 0 { cur = vec![0; cur.len() + 1]; break; }
      k -= 1;
      if cur[k] + 1 < alphabet.len() { cur[k] += 1; for j in k + 1..cur.len() { cur[j] = 0; } break; }
    }
    if cur.len() > 4 { break; }
    let t: String = cur.iter().map(|&i| alphabet[i]).collect();
    n += 1;
    probe(format!("payload {t:?}"), format!("{P}{t}"))?;
  }
  // other prefixes / other URL kinds
  for u in ["data:application/octet-stream;base64", "data:,", "data:text/plain;base64,eJw", "https://example.com/eJw", "data:application/octet-stream;base64,,", "did:example:1"] { probe(format!("url {u}"), u.to_owned())?; n += 1; }
  // 2. every byte string of length <= 2 as (a) the zlib stream itself, (b) the content of a well-formed zlib stream
  for len in 0..=2usize { for v in 0..(1u32 << (8 * len)) {
    let bytes: Vec<u8> = (0..len).map(|i| (v >> (8 * i)) as u8).collect();
    if len < 2 || v % 7 == 0 { probe(format!("zlib stream {bytes:?}"), format!("{P}{}", b64url(&bytes)))?; }
    probe(format!("roaring bytes {bytes:?}"), format!("{P}{}", b64url(&zlib(&bytes))))?;
    n += 1;
  } }
  // 3. crafted roaring headers: cookie x container count x pseudo-random body
  let mut seed = 0x2545F491u32;
  let mut rnd = move || { seed ^= seed << 13; seed ^= seed >> 17; seed ^= seed << 5; seed };
  for cookie in [12346u32, 12347, 12345, 0, 0xFFFF_FFFF, 12347 | (3 << 16), 12347 | (0xFFFF << 16)] {
    for size in [0u32, 1, 2, 4, 5, 0xFFFF, 0x1_0000, 0xFFFF_FFFF] {
      for body_len in [0usize, 1, 3, 4, 7, 8, 12, 16, 24, 40, 8200] {
        for _ in 0..3 {
          let mut p = cookie.to_le_bytes().to_vec();
          if cookie & 0xFFFF != 12347 { p.extend_from_slice(&size.to_le_bytes()); }
          // half of the bodies start with a plausible description (key, cardinality-1) and offset
          let mut body: Vec<u8> = (0..body_len).map(|_| rnd() as u8).collect();
          if body_len >= 8 && rnd() % 2 == 0 { body[..8].copy_from_slice(&[0, 0, (rnd() % 3) as u8, 0, 16, 0, 0, 0]); }
          p.extend_from_slice(&body);
          n += 1;
          probe(format!("roaring cookie {cookie:#x} size {size:#x} body {} bytes", body_len), format!("{P}{}", b64url(&zlib(&p))))?;
        }
      }
    }
  }
  // 4. a genuine endpoint (array container + bitmap container) truncated at every length and with every single bit of the
  //    roaring bytes flipped; the same at the zlib layer and at the base64 layer
  let mut b = RevocationBitmap::new();
  for i in [1u32, 5, 70000, 70001] { b.revoke(i); }
  for i in 0..5000u32 { b.revoke(200_000 + i * 3); }
  let endpoint = b.to_service(DIDUrl::parse("did:example:1#rev").unwrap()).map_err(|e| e.to_string())?;
  let ServiceEndpoint::One(u) = endpoint.service_endpoint() else { return Err("endpoint shape".into()) };
  let enc = u.as_str().strip_prefix(P).ok_or("prefix")?.to_owned();
  let z = identity_core::convert::BaseEncoding::decode(&enc, identity_core::convert::Base::Base64Url).map_err(|e| e.to_string())?;
  let raw = { use std::io::Read; let mut d = flate2::read::ZlibDecoder::new(&z[..]); let mut o = vec![]; d.read_to_end(&mut o).map_err(|e| e.to_string())?; o };
  if !probe("genuine".into(), format!("{P}{enc}"))? { return Err("genuine endpoint refused".into()); }
  let mut accepted_mutants = 0u32;
  for cut in 0..raw.len().min(600) { probe(format!("roaring bytes cut at {cut}"), format!("{P}{}", b64url(&zlib(&raw[..cut]))))?; n += 1; }
  for i in 0..raw.len().min(120) { for bit in 0..8 { let mut m = raw.clone(); m[i] ^= 1 << bit; n += 1; if probe(format!("roaring byte {i} bit {bit} flipped"), format!("{P}{}", b64url(&zlib(&m))))? { accepted_mutants += 1; } } }
  for cut in 0..z.len().min(400) { probe(format!("zlib stream cut at {cut}"), format!("{P}{}", b64url(&z[..cut])))?; n += 1; }
  for i in 0..z.len().min(200) { for bit in [0, 3, 7] { let mut m = z.clone(); m[i] ^= 1 << bit; n += 1; probe(format!("zlib byte {i} bit {bit} flipped"), format!("{P}{}", b64url(&m)))?; } }
  for cut in 0..enc.len().min(300) { probe(format!("base64 text cut at {cut}"), format!("{P}{}", &enc[..cut]))?; n += 1; }
  // legacy double encoding of each of the above text prefixes
  for cut in (0..enc.len().min(300)).step_by(3) {
    let legacy = identity_core::convert::BaseEncoding::encode(enc[..cut].as_bytes(), identity_core::convert::Base::Base64);
    probe(format!("legacy encoding of text cut at {cut}"), format!("{P}{legacy}"))?; n += 1;
  }
  let _ = accepted_mutants;
  if n < 90_000 { return Err(format!("only {n} inputs")); }
  Ok(())
}

fn main() {
  std::panic::set_hook(Box::new(|_| {}));
  w("rb_junk_endpoints_never_panic", junk_endpoints_never_panic);
  w("rb_roundtrip_small_sets", || { for n in 0..12u32 { let mut b = RevocationBitmap::new(); for i in 0..n { b.revoke(i * 7 + 1); } roundtrip(&b).map_err(|e| format!("{n} indices: {e}"))?; } Ok(()) });
  w("rb_roundtrip_larger_sets", || {
    for n in [16u32, 17, 40, 100, 1000, 30000] { let mut b = RevocationBitmap::new(); for i in 0..n { b.revoke(i.wrapping_mul(2654435761) % (if n > 10000 { 4_000_000_000 } else { 100000 })); } roundtrip(&b).map_err(|e| format!("{n} pseudo-random indices: {e}"))?; }
    let mut b = RevocationBitmap::new(); for i in 0..5u32 { b.revoke(i * 70000); } roundtrip(&b).map_err(|e| format!("5 containers: {e}"))?;
    Ok(())
  });
  w("rb_legacy_endpoint_decodes", || {
    // Base64(Base64Url(zlib(bitmap))): the pre-#1291 double encoding, vector from the specification tests
    let url = "data:application/octet-stream;base64,ZUp5ek1tQmdZR0lBQVVZZ1pHQ1FBR0laSUdabDZHUGN3UW9BRXVvQjlB";
    let svc = Service::builder(Object::new()).id(DIDUrl::parse("did:example:1#rev").unwrap()).type_(RevocationBitmap::TYPE)
      .service_endpoint(ServiceEndpoint::One(Url::parse(url).unwrap())).build().map_err(|e| e.to_string())?;
    let b = RevocationBitmap::try_from(&svc).map_err(|e| format!("legacy endpoint rejected: {e}"))?;
    if !(b.is_revoked(5) && b.is_revoked(398) && b.is_revoked(67000) && b.len() == 3) { return Err("legacy endpoint decoded to the wrong set".into()); }
    Ok(())
  });
  w("rb_revoke_unrevoke_exact", || {
    let mut b = RevocationBitmap::new();
    for i in [3u32, 9, 254, 65536] { b.revoke(i); }
    b.unrevoke(9); b.revoke(3);
    for i in 0..70000u32 { if b.is_revoked(i) != [3u32, 254, 65536].contains(&i) { return Err(format!("membership of {i} wrong")); } }
    Ok(())
  });
  w("rb_document_revoke_unrevoke_exact_indices", || {
    use identity_core::convert::FromJson;
    use identity_credential::revocation::RevocationDocumentExt;
    use identity_document::document::CoreDocument;
    let sid = DIDUrl::parse("did:example:1#rev").unwrap();
    let mut d = CoreDocument::from_json(r#"{"id":"did:example:1"}"#).unwrap();
    d.insert_service(RevocationBitmap::new().to_service(sid.clone()).unwrap()).map_err(|e| format!("setup: {e}"))?;
    let members = |d: &CoreDocument, probe: &[u32]| -> Vec<u32> { let b = d.resolve_revocation_bitmap((&sid).into()).unwrap(); probe.iter().cloned().filter(|i| b.is_revoked(*i)).collect() };
    let probe = [3u32, 5, 7, 9, 11, 65536];
    let steps: [(&str, &[u32], Vec<u32>); 9] = [
      ("revoke", &[5], vec![5]), ("revoke", &[7, 5], vec![5, 7]), ("revoke", &[9, 9, 3], vec![3, 5, 7, 9]),
      ("unrevoke", &[7, 11], vec![3, 5, 9]), ("unrevoke", &[3, 42], vec![5, 9]), ("revoke", &[65536, 5], vec![5, 9, 65536]),
      ("unrevoke", &[5, 9, 65536], vec![]), ("revoke", &[11], vec![11]), ("unrevoke", &[11], vec![]),
    ];
    for (op, idx, want) in steps {
      if op == "revoke" { d.revoke_credentials(&sid, idx) } else { d.unrevoke_credentials(&sid, idx) }.map_err(|e| format!("{op} {idx:?}: {e}"))?;
      let got = members(&d, &probe);
      if got != want { return Err(format!("after {op} {idx:?}: members among {probe:?} are {got:?}, expected {want:?}")); }
    }
    Ok(())
  });
}
