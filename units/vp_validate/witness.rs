// Concrete witnesses for the `vp_validate` unit, run against the real crate (public API; accept-all verifier).
use identity_core::common::{Object, Timestamp};
use identity_core::convert::FromJson;
use identity_credential::credential::Jwt;
use identity_credential::validator::{JwtPresentationValidationOptions, JwtPresentationValidator};
use identity_document::document::CoreDocument;
use identity_document::verifiable::JwsVerificationOptions;
use identity_verification::jwk::Jwk;
use identity_verification::jws::{JwsVerifierFn, SignatureVerificationError, VerificationInput};
use identity_verification::jwu::encode_b64;
use std::panic::catch_unwind;

fn w(name: &str, f: impl FnOnce() -> Result<(), String> + std::panic::UnwindSafe) {
  match catch_unwind(f) {
    Ok(Ok(())) => println!("WITNESS {name} OK"),
    Ok(Err(e)) => println!("WITNESS {name} FAIL {e}"),
    Err(_) => println!("WITNESS {name} FAIL panicked"),
  }
}
const DID: &str = "did:example:holder";
fn doc() -> CoreDocument {
  CoreDocument::from_json(&format!(r#"{{"id":"{DID}","verificationMethod":[{{"id":"{DID}#k","controller":"{DID}","type":"JsonWebKey","publicKeyJwk":{{"kty":"OKP","crv":"Ed25519","x":"11qYAYKxCrfVS_7TyWQHOg7hcvPapiMlrwIaaPcHURo"}}}}]}}"#)).unwrap()
}
fn jwt(header_extra: &str, claims: &str) -> Jwt {
  Jwt::new(format!("{}.{}.{}", encode_b64(format!(r#"{{"alg":"EdDSA","kid":"{DID}#k"{header_extra}}}"#)), encode_b64(claims), encode_b64([7u8; 64])))
}
fn claims(iss: &str, extra: &str) -> String {
  format!(r#"{{ {extra} "iss":"{iss}", "vp": {{ "@context":"https://www.w3.org/2018/credentials/v1","type":"VerifiablePresentation" }} }}"#)
}
fn ok(j: &Jwt, o: &JwtPresentationValidationOptions) -> bool {
  let accept_all = JwsVerifierFn::from(|_i: VerificationInput, _k: &Jwk| -> Result<(), SignatureVerificationError> { Ok(()) });
  JwtPresentationValidator::with_signature_verifier(accept_all).validate::<CoreDocument, Jwt, Object>(j, &doc(), o).is_ok()
}

fn main() {
  std::panic::set_hook(Box::new(|_| {}));
  w("vp_iss_must_equal_holder_did", || {
    let o = JwtPresentationValidationOptions::default();
    if !ok(&jwt("", &claims(DID, "")), &o) { return Err("plain presentation rejected".into()); }
    for iss in ["did:example:other", "did:example:holder#k", "did:example:holder/path", "did:example:holder?x=1", "https://example.com"] {
      if ok(&jwt("", &claims(iss, "")), &o) { return Err(format!("iss {iss:?} accepted for holder {DID}")); }
    }
    Ok(())
  });
  w("vp_expiry_and_issuance_bounds", || {
    let t = |s: i64| Timestamp::from_unix(s).unwrap();
    let o = JwtPresentationValidationOptions::default().earliest_expiry_date(t(1000)).latest_issuance_date(t(2000));
    for (extra, want) in [(r#""exp":1000,"#, true), (r#""exp":999,"#, false), (r#""exp":1001,"#, true), (r#""nbf":2000,"#, true), (r#""nbf":2001,"#, false), (r#""iat":2001,"#, false), (r#""iat":1999,"#, true),
                          (r#""exp":253402300800,"#, false), (r#""nbf":-62167219201,"#, false)] {
      if ok(&jwt("", &claims(DID, extra)), &o) != want { return Err(format!("claims {extra} with bounds exp>=1000, issuance<=2000: expected accept={want}")); }
    }
    // without a configured bound "now" is used: an expired token is rejected, a token issued in the future is rejected
    let d = JwtPresentationValidationOptions::default();
    if ok(&jwt("", &claims(DID, r#""exp":1000,"#)), &d) { return Err("token expired in 1970 accepted with default options".into()); }
    if ok(&jwt("", &claims(DID, r#""nbf":253402300799,"#)), &d) { return Err("token issued in year 9999 accepted with default options".into()); }
    Ok(())
  });
  w("vp_duplicates_must_agree", || {
    let o = JwtPresentationValidationOptions::default();
    let c = |extra: &str, vp_extra: &str| format!(r#"{{ {extra} "iss":"{DID}", "vp": {{ "@context":"https://www.w3.org/2018/credentials/v1","type":"VerifiablePresentation" {vp_extra} }} }}"#);
    for (extra, vp_extra, want) in [
      (r#""jti":"https://example.com/p/1","#, r#","id":"https://example.com/p/1""#, true),
      (r#""jti":"https://example.com/p/2","#, r#","id":"https://example.com/p/1""#, false),
      ("", r#","id":"https://example.com/p/1""#, false),
      (r#""jti":"https://example.com/p/1","#, "", true),
      ("", r#","holder":"did:example:holder""#, true),
      ("", r#","holder":"did:example:other""#, false),
    ] {
      if ok(&jwt("", &c(extra, vp_extra)), &o) != want { return Err(format!("claims [{extra}] vp [{vp_extra}]: expected accept={want}")); }
    }
    Ok(())
  });
  w("vp_nonce_and_kid_rules", || {
    let o = |n: Option<&str>| { let mut v = JwsVerificationOptions::default(); if let Some(n) = n { v = v.nonce(n); } JwtPresentationValidationOptions::default().presentation_verifier_options(v) };
    if ok(&jwt("", &claims(DID, "")), &o(Some("n1"))) { return Err("token without nonce accepted although a nonce is required".into()); }
    if ok(&jwt(r#","nonce":"n1""#, &claims(DID, "")), &o(None)) { return Err("token with nonce accepted although none is configured".into()); }
    if !ok(&jwt(r#","nonce":"n1""#, &claims(DID, "")), &o(Some("n1"))) { return Err("matching nonce rejected".into()); }
    Ok(())
  });
}
