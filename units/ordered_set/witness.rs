// Concrete witnesses for the `ordered_set` unit, run against the real crate (public API only), compared
// with an abstract duplicate-free list model.
use identity_core::common::{OneOrMany, OneOrSet, OrderedSet};
use std::panic::catch_unwind;

fn w(name: &str, f: impl FnOnce() -> Result<(), String> + std::panic::UnwindSafe) {
  match catch_unwind(f) {
    Ok(Ok(())) => println!("WITNESS {name} OK"),
    Ok(Err(e)) => println!("WITNESS {name} FAIL {e}"),
    Err(_) => println!("WITNESS {name} FAIL panicked"),
  }
}

/// an item whose KEY is the first component only (u8 keys compare by value in the crate: use a keyed wrapper via String)
/// - the crate implements KeyComparable for String, so "k:payload" style items cannot share a key; plain u8 / String items
/// are their own key, which is what the wrappers are used with in this repository (DIDs, URLs, contexts)
fn wrappers_against_list_model() -> Result<(), String> {
  use identity_core::convert::{FromJson, ToJson};
  let universe = [1u8, 2, 3];
  // every sequence of up to 5 appends over 3 keys, from every singleton start, and from 2-element sets
  let mut starts: Vec<(OneOrSet<u8>, Vec<u8>)> = universe.iter().map(|&x| (OneOrSet::new_one(x), vec![x])).collect();
  for &x in &universe { for &y in &universe { if x != y {
    starts.push((OneOrSet::new_set(OrderedSet::try_from(vec![x, y]).map_err(|e| e.to_string())?).map_err(|e| e.to_string())?, vec![x, y]));
  } } }
  let mut explored = 0u32;
  for (start, model0) in starts {
    let mut stack: Vec<(OneOrSet<u8>, Vec<u8>, usize)> = vec![(start, model0, 0)];
    while let Some((s, m, depth)) = stack.pop() {
      // observations on every reached state
      explored += 1;
      if s.len() != m.len() || s.as_slice() != &m[..] || s.is_empty() { return Err(format!("state {:?} but the model is {m:?}", s.as_slice())); }
      for &k in &universe { if s.contains(&k) != m.contains(&k) { return Err(format!("contains({k}) on {:?}", s.as_slice())); } }
      for i in 0..4 { if s.get(i) != m.get(i) { return Err(format!("get({i}) on {:?}", s.as_slice())); } }
      if s.clone().into_vec() != m { return Err("into_vec".into()); }
      // JSON: a single element is a bare value, several an array; always reads back to an equal value
      let json = s.to_json().map_err(|e| e.to_string())?;
      let expect_json = if m.len() == 1 && json.starts_with(|c: char| c.is_ascii_digit()) { format!("{}", m[0]) } else { format!("[{}]", m.iter().map(|x| x.to_string()).collect::<Vec<_>>().join(",")) };
      if json != expect_json { return Err(format!("{:?} serialises as {json}", s.as_slice())); }
      match OneOrSet::<u8>::from_json(&json) { Ok(back) if back.as_slice() == s.as_slice() => {}, other => return Err(format!("{json} reads back as {:?}", other.map(|b| b.into_vec()))) }
      // map / try_map keep order, drop later duplicates of a key, never produce an empty value
      let doubled: Vec<u8> = s.clone().map(|x| x * 2).into_vec();
      if doubled != m.iter().map(|x| x * 2).collect::<Vec<_>>() { return Err(format!("map(*2) on {m:?} gives {doubled:?}")); }
      let collapsed: Vec<u8> = s.clone().map(|x| x % 2).into_vec();
      let mut want: Vec<u8> = vec![]; for x in m.iter().map(|x| x % 2) { if !want.contains(&x) { want.push(x); } }
      if collapsed != want { return Err(format!("map(%2) on {m:?} gives {collapsed:?}, expected first occurrences {want:?}")); }
      let tried: Result<OneOrSet<u8>, String> = s.clone().try_map(|x| if x == 3 { Err("three".to_owned()) } else { Ok(x + 10) });
      match (tried, m.contains(&3)) { (Err(_), true) => {}, (Ok(v), false) if v.as_slice() == &m.iter().map(|x| x + 10).collect::<Vec<_>>()[..] => {}, (r, _) => return Err(format!("try_map on {m:?}: {:?}", r.map(|v| v.into_vec()))) }
      if depth == 5 { continue; }
      for &k in &universe {
        let mut s2 = s.clone(); let mut m2 = m.clone();
        let inserted = s2.append(k);
        let want_inserted = !m.contains(&k); if want_inserted { m2.push(k); }
        if inserted != want_inserted { return Err(format!("{m:?}.append({k}) returned {inserted}")); }
        stack.push((s2, m2, depth + 1));
      }
    }
  }
  // JSON forms that must be refused: empty array, duplicates
  for bad in ["[]", "[1,1]", "[1,2,1]"] { if OneOrSet::<u8>::from_json(bad).is_ok() { return Err(format!("OneOrSet reads {bad}")); } }
  if OrderedSet::<u8>::from_json("[1,2,1]").is_ok() { return Err("OrderedSet reads [1,2,1]".into()); }
  // OneOrMany: bare value for one, array otherwise, own JSON reads back equal, push grows by one
  for n in 0..4usize {
    let items: Vec<u8> = (0..n as u8).collect();
    let v: OneOrMany<u8> = OneOrMany::from(items.clone());
    if v.len() != n || v.is_empty() != (n == 0) || v.clone().into_vec() != items { return Err(format!("OneOrMany from {items:?}")); }
    let json = v.to_json().map_err(|e| e.to_string())?;
    match OneOrMany::<u8>::from_json(&json) { Ok(back) if back.clone().into_vec() == items => {}, other => return Err(format!("OneOrMany {json} reads back as {:?}", other.map(|b| b.into_vec()))) }
    let mut p = v.clone(); p.push(9);
    let mut want = items.clone(); want.push(9);
    if p.into_vec() != want { return Err(format!("OneOrMany push on {items:?}")); }
  }
  if OneOrMany::One(7u8).to_json().map_err(|e| e.to_string())? != "7" { return Err("OneOrMany::One is not a bare value".into()); }
  if explored < 2_000 { return Err(format!("only {explored} states")); }
  Ok(())
}

fn main() {
  std::panic::set_hook(Box::new(|_| {}));
  w("oos_wrappers_against_list_model", wrappers_against_list_model);
  w("os_remove_keeps_order", || {
    for n in 1usize..6 { for k in 0..n {
      let v: Vec<u32> = (0..n as u32).map(|x| x * 10 + 10).collect();
      let mut s = OrderedSet::try_from(v.clone()).map_err(|e| e.to_string())?;
      let removed = s.remove(&v[k]);
      let mut model = v.clone(); model.remove(k);
      if removed != Some(v[k]) || s.as_slice() != &model[..] { return Err(format!("{v:?}.remove({}) -> {:?}, set {:?}, expected {model:?}", v[k], removed, s.as_slice())); }
    }}
    Ok(())
  });
  w("os_ops_match_list_model", || {
    // exhaustive short op sequences over keys 0..3 against a Vec model (append/prepend/update/replace/remove)
    let keys = [0u8, 1, 2];
    for a in 0..5u8 { for ka in keys { for b in 0..5u8 { for kb in keys { for c in 0..5u8 { for kc in keys {
      let mut s: OrderedSet<u8> = OrderedSet::new(); let mut m: Vec<u8> = vec![];
      for (op, k) in [(a, ka), (b, kb), (c, kc), (0, 1), (3, 2)] {
        match op {
          0 => { let r = s.append(k); let e = !m.contains(&k); if e { m.push(k); } if r != e { return Err(format!("append flag")); } }
          1 => { let r = s.prepend(k); let e = !m.contains(&k); if e { m.insert(0, k); } if r != e { return Err(format!("prepend flag")); } }
          2 => { let r = s.update(k); if r != m.contains(&k) { return Err(format!("update flag")); } }
          3 => { let other = (k + 1) % 3; let r = s.replace(&other, k);
                 let pos = m.iter().position(|x| *x == other || *x == k);
                 if let Some(p) = pos { let mut n: Vec<u8> = m[..p].to_vec(); n.push(k); n.extend(m[p + 1..].iter().copied().filter(|x| *x != other && *x != k)); m = n; }
                 if r != pos.is_some() { return Err(format!("replace flag")); } }
          _ => { let r = s.remove(&k); let pos = m.iter().position(|x| *x == k); if let Some(p) = pos { m.remove(p); } if r.is_some() != pos.is_some() { return Err(format!("remove flag")); } }
        }
        if s.as_slice() != &m[..] { return Err(format!("after op {op} key {k}: set {:?} model {m:?}", s.as_slice())); }
      }
    }}}}}}
    Ok(())
  });
  w("oos_try_from_vec_rejects_duplicates", || {
    if OneOrSet::<u32>::try_from(vec![1, 2, 1]).is_ok() { return Err("OneOrSet::try_from([1,2,1]) accepted".into()); }
    if OneOrSet::<u32>::try_from(Vec::<u32>::new()).is_ok() { return Err("OneOrSet::try_from([]) accepted".into()); }
    if OrderedSet::<u32>::try_from(vec![5, 5]).is_ok() { return Err("OrderedSet::try_from([5,5]) accepted".into()); }
    let s = OneOrSet::<u32>::try_from(vec![3, 4]).map_err(|e| e.to_string())?;
    if s.as_slice() != &[3, 4] { return Err("order lost".into()); }
    Ok(())
  });
  w("oos_singleton_is_bare_value", || {
    use identity_core::convert::ToJson;
    let one = OneOrSet::new_one(7u32);
    let via_vec = OneOrSet::<u32>::try_from(vec![7]).map_err(|e| e.to_string())?;
    let via_set = OneOrSet::<u32>::try_from(OrderedSet::try_from(vec![7u32]).unwrap()).map_err(|e| e.to_string())?;
    let via_new_set = OneOrSet::new_set(OrderedSet::try_from(vec![7u32]).unwrap()).map_err(|e| e.to_string())?;
    for (n, x) in [("try_from(Vec)", &via_vec), ("try_from(OrderedSet)", &via_set), ("new_set", &via_new_set)] {
      if x != &one || x.to_json().unwrap() != "7" { return Err(format!("{n} of a singleton is {:?} / {}", x, x.to_json().unwrap())); }
    }
    let m = OneOrMany::from(vec![7u32]);
    if m != OneOrMany::One(7) { return Err("OneOrMany::from(vec![7]) is not One".into()); }
    Ok(())
  });
}
