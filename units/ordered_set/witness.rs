// Concrete witnesses for the `ordered_set` unit, run against the real crate (public API only), compared
// with an abstract duplicate-free list model.
use identity_core::common::{OneOrMany, OneOrSet, OrderedSet};
use std::panic::catch_unwind;

fn w(name: &str, f: impl FnOnce() -> Result<(), String> + std::panic::UnwindSafe) {
  match catch_unwind(f) {
    Ok(Ok(())) => println!("WITNESS {name} OK"),
    Ok(Err(e)) => println!("WITNESS {name} FAIL {e}"),
    Err(_) => println!("WITNESS {name} FAIL panicked"),
  }
}

fn main() {
  std::panic::set_hook(Box::new(|_| {}));
  w("os_remove_keeps_order", || {
    for n in 1usize..6 { for k in 0..n {
      let v: Vec<u32> = (0..n as u32).map(|x| x * 10 + 10).collect();
      let mut s = OrderedSet::try_from(v.clone()).map_err(|e| e.to_string())?;
      let removed = s.remove(&v[k]);
      let mut model = v.clone(); model.remove(k);
      if removed != Some(v[k]) || s.as_slice() != &model[..] { return Err(format!("{v:?}.remove({}) -> {:?}, set {:?}, expected {model:?}", v[k], removed, s.as_slice())); }
    }}
    Ok(())
  });
  w("os_ops_match_list_model", || {
    // exhaustive short op sequences over keys 0..3 against a Vec model (append/prepend/update/replace/remove)
    let keys = [0u8, 1, 2];
    for a in 0..5u8 { for ka in keys { for b in 0..5u8 { for kb in keys { for c in 0..5u8 { for kc in keys {
      let mut s: OrderedSet<u8> = OrderedSet::new(); let mut m: Vec<u8> = vec![];
      for (op, k) in [(a, ka), (b, kb), (c, kc), (0, 1), (3, 2)] {
        match op {
          0 => { let r = s.append(k); let e = !m.contains(&k); if e { m.push(k); } if r != e { return Err(format!("append flag")); } }
          1 => { let r = s.prepend(k); let e = !m.contains(&k); if e { m.insert(0, k); } if r != e { return Err(format!("prepend flag")); } }
          2 => { let r = s.update(k); if r != m.contains(&k) { return Err(format!("update flag")); } }
          3 => { let other = (k + 1) % 3; let r = s.replace(&other, k);
                 let pos = m.iter().position(|x| *x == other || *x == k);
                 if let Some(p) = pos { let mut n: Vec<u8> = m[..p].to_vec(); n.push(k); n.extend(m[p + 1..].iter().copied().filter(|x| *x != other && *x != k)); m = n; }
                 if r != pos.is_some() { return Err(format!("replace flag")); } }
          _ => { let r = s.remove(&k); let pos = m.iter().position(|x| *x == k); if let Some(p) = pos { m.remove(p); } if r.is_some() != pos.is_some() { return Err(format!("remove flag")); } }
        }
        if s.as_slice() != &m[..] { return Err(format!("after op {op} key {k}: set {:?} model {m:?}", s.as_slice())); }
      }
    }}}}}}
    Ok(())
  });
  w("oos_try_from_vec_rejects_duplicates", || {
    if OneOrSet::<u32>::try_from(vec![1, 2, 1]).is_ok() { return Err("OneOrSet::try_from([1,2,1]) accepted".into()); }
    if OneOrSet::<u32>::try_from(Vec::<u32>::new()).is_ok() { return Err("OneOrSet::try_from([]) accepted".into()); }
    if OrderedSet::<u32>::try_from(vec![5, 5]).is_ok() { return Err("OrderedSet::try_from([5,5]) accepted".into()); }
    let s = OneOrSet::<u32>::try_from(vec![3, 4]).map_err(|e| e.to_string())?;
    if s.as_slice() != &[3, 4] { return Err("order lost".into()); }
    Ok(())
  });
  w("oos_singleton_is_bare_value", || {
    use identity_core::convert::ToJson;
    let one = OneOrSet::new_one(7u32);
    let via_vec = OneOrSet::<u32>::try_from(vec![7]).map_err(|e| e.to_string())?;
    let via_set = OneOrSet::<u32>::try_from(OrderedSet::try_from(vec![7u32]).unwrap()).map_err(|e| e.to_string())?;
    let via_new_set = OneOrSet::new_set(OrderedSet::try_from(vec![7u32]).unwrap()).map_err(|e| e.to_string())?;
    for (n, x) in [("try_from(Vec)", &via_vec), ("try_from(OrderedSet)", &via_set), ("new_set", &via_new_set)] {
      if x != &one || x.to_json().unwrap() != "7" { return Err(format!("{n} of a singleton is {:?} / {}", x, x.to_json().unwrap())); }
    }
    let m = OneOrMany::from(vec![7u32]);
    if m != OneOrMany::One(7) { return Err("OneOrMany::from(vec![7]) is not One".into()); }
    Ok(())
  });
}
