// Bounded Kani stand-ins for the two OrderedSet functions whose contracts are ASSUMED in the Verus unit
// (`remove`, `change`): fixed lengths, symbolic (key, value) bytes, distinct keys. Labelled bounded.
use super::*;

#[derive(Clone, Copy, PartialEq, Eq, Debug)]
struct KV { k: u8, v: u8 }
impl KeyComparable for KV { type Key = u8; fn key(&self) -> &u8 { &self.k } }

fn any_kv() -> KV { KV { k: kani::any(), v: kani::any() } }
fn distinct(v: &[KV]) { for i in 0..v.len() { for j in 0..i { kani::assume(v[i].k != v[j].k); } } }

macro_rules! remove_harness { ($name:ident, $n:expr) => {
  #[kani::proof]
  #[kani::unwind(6)]
  fn $name() {
    let items: [KV; $n] = [any_kv(); $n].map(|_| any_kv());
    distinct(&items);
    let mut s = OrderedSet(items.to_vec());
    let probe = any_kv();
    let r = s.remove(&probe);
    let pos = items.iter().position(|e| e.k == probe.k);
    match pos {
      None => { assert!(r.is_none()); assert!(s.0.as_slice() == &items[..]); }
      Some(p) => {
        assert!(r == Some(items[p]));
        assert!(s.0.len() + 1 == $n);
        // order kept: everything before p unchanged, everything after shifted down by one
        for i in 0..s.0.len() { assert!(s.0[i] == if i < p { items[i] } else { items[i + 1] }); }
      }
    }
    kani::cover!(pos.is_some() && $n >= 1, "a removal happens");
  }
}}
remove_harness!(os_remove_len0, 0);
remove_harness!(os_remove_len1, 1);
remove_harness!(os_remove_len2, 2);
remove_harness!(os_remove_len3, 3);
remove_harness!(os_remove_len4, 4);

// change(data, f) against the contract assumed in the Verus unit, with the two predicates the library uses
macro_rules! change_harness { ($name:ident, $n:expr) => {
  #[kani::proof]
  #[kani::unwind(6)]
  fn $name() {
    let items: [KV; $n] = [any_kv(); $n].map(|_| any_kv());
    // NOT assumed distinct: `change` must drop later matches whatever the input is
    let mut s = OrderedSet(items.to_vec());
    let data = any_kv();
    let other: u8 = kani::any();
    let f = |item: &KV, upd: &KV| item.k == other || item.k == upd.k;   // the `replace` predicate (subsumes `update` when other == upd.k)
    let r = s.change(data, f);
    let pos = items.iter().position(|e| f(e, &data));
    match pos {
      None => { assert!(!r); assert!(s.0.as_slice() == &items[..]); }
      Some(p) => {
        assert!(r);
        // model: prefix, data, then the later non-matching elements in order
        let mut model: Vec<KV> = Vec::new();
        for i in 0..p { model.push(items[i]); }
        model.push(data);
        for i in (p + 1)..$n { if !f(&items[i], &data) { model.push(items[i]); } }
        assert!(s.0 == model);
      }
    }
    kani::cover!(pos.is_some() && $n >= 1, "a change happens");
  }
}}
change_harness!(os_change_len0, 0);
change_harness!(os_change_len1, 1);
change_harness!(os_change_len2, 2);
change_harness!(os_change_len3, 3);
