// Concrete witnesses for the `did_url_query` unit (public API of identity_document).
use identity_core::convert::FromJson;
use identity_did::DIDUrl;
use identity_document::document::CoreDocument;
use std::panic::catch_unwind;
fn w(name: &str, f: impl FnOnce() -> Result<(), String> + std::panic::UnwindSafe) {
  match catch_unwind(f) {
    Ok(Ok(())) => println!("WITNESS {name} OK"),
    Ok(Err(e)) => println!("WITNESS {name} FAIL {e}"),
    Err(_) => println!("WITNESS {name} FAIL panicked"),
  }
}
const JWK: &str = r#"{"kty":"OKP","crv":"Ed25519","x":"11qYAYKxCrfVS_7TyWQHOg7hcvPapiMlrwIaaPcHURo"}"#;
fn doc() -> CoreDocument {
  CoreDocument::from_json(&format!(r#"{{"id":"did:example:abc","verificationMethod":[{{"id":"did:example:abc#k1","controller":"did:example:abc","type":"JsonWebKey","publicKeyJwk":{JWK}}}],
    "service":[{{"id":"did:example:abc#svc","type":"X","serviceEndpoint":"https://example.com/"}}]}}"#)).unwrap()
}
fn main() {
  std::panic::set_hook(Box::new(|_| {}));
  w("dq_query_by_did_url_includes_the_did", || {
    let d = doc();
    let u = |s: &str| DIDUrl::parse(s).unwrap();
    for (q, want) in [("did:example:abc#k1", true), ("did:example:other#k1", false), ("did:example:abc#k2", false), ("did:example:abc/path?x=1#k1", true), ("did:example:other/path#k1", false)] {
      let got = d.resolve_method(&u(q), None).is_some();
      if got != want { return Err(format!("resolve_method(&DIDUrl {q:?}) found={got}, expected={want}")); }
      let got = d.resolve_method(u(q), None).is_some();
      if got != want { return Err(format!("resolve_method(DIDUrl {q:?}) found={got}, expected={want}")); }
    }
    for (q, want) in [("did:example:abc#svc", true), ("did:example:other#svc", false)] {
      let got = d.resolve_service(&u(q)).is_some();
      if got != want { return Err(format!("resolve_service(&DIDUrl {q:?}) found={got}, expected={want}")); }
    }
    Ok(())
  });
  w("dq_query_by_text", || {
    let d = doc();
    for (q, want) in [("#k1", true), ("k1", true), ("did:example:abc#k1", true), ("did:example:other#k1", false), ("did:example:abc", false), ("", false), ("#", false), ("did:example:abc#", false), ("/path#k1", true), ("?q#k1", true), ("#k2", false)] {
      let got = d.resolve_method(q, None).is_some();
      if got != want { return Err(format!("resolve_method({q:?}) found={got}, expected={want}")); }
      let s = q.to_owned();
      if d.resolve_method(&s, None).is_some() != want { return Err(format!("resolve_method(&String {q:?}) disagrees")); }
    }
    Ok(())
  });
}
