// Concrete witnesses for the `storage_jws` unit: JwkDocumentExt::create_jws of the real crates over the in-memory stores,
// decoded and verified again with the real decoder and the EdDSA verifier (C08 through the storage-backed signer).
use identity_credential::credential::Jws;
use identity_document::document::CoreDocument;
use identity_eddsa_verifier::EdDSAJwsVerifier;
use identity_storage::key_id_storage::KeyIdMemstore;
use identity_storage::key_storage::JwkMemStore;
use identity_storage::storage::{JwkDocumentExt, JwsSignatureOptions, Storage};
use identity_verification::jose::jws::{Decoder, JwsAlgorithm};
use identity_verification::MethodScope;
use identity_core::convert::FromJson;

async fn grid() -> Result<(), String> {
  let storage = Storage::new(JwkMemStore::new(), KeyIdMemstore::new());
  let mut doc = CoreDocument::from_json(r#"{"id":"did:example:signer"}"#).unwrap();
  let frag_a = doc.generate_method(&storage, JwkMemStore::ED25519_KEY_TYPE, JwsAlgorithm::EdDSA, Some("a"), MethodScope::VerificationMethod).await.map_err(|e| e.to_string())?;
  let frag_b = doc.generate_method(&storage, JwkMemStore::ED25519_KEY_TYPE, JwsAlgorithm::EdDSA, Some("b"), MethodScope::assertion_method()).await.map_err(|e| e.to_string())?;
  let key_of = |d: &CoreDocument, f: &str| d.resolve_method(f, None).unwrap().data().public_key_jwk().unwrap().clone();
  let (key_a, key_b) = (key_of(&doc, &frag_a), key_of(&doc, &frag_b));
  let payloads: [&[u8]; 4] = [b"{}", b"{\"iss\":\"did:example:signer\"}", b"plain text", b"dots.in.payload"];
  let mut made = 0u32;
  for payload in payloads { for kid in [None, Some("did:example:other#k")] { for b64 in [None, Some(true), Some(false)] { for detached in [false, true] {
    for attach in [false, true] { for typ in [None, Some("example+jwt")] { for nonce in [None, Some("n-1")] { for (frag, own, other) in [(&frag_a, &key_a, &key_b), (&frag_b, &key_b, &key_a)] {
      let mut o = JwsSignatureOptions::new().attach_jwk_to_header(attach).detached_payload(detached);
      if let Some(k) = kid { o = o.kid(k); }
      if let Some(b) = b64 { o = o.b64(b); }
      if let Some(t) = typ { o = o.typ(t); }
      if let Some(n) = nonce { o = o.nonce(n); }
      let what = format!("payload {:?} kid {kid:?} b64 {b64:?} detached {detached} attach {attach} typ {typ:?} nonce {nonce:?} method #{frag}", String::from_utf8_lossy(payload));
      let jws: Jws = match doc.create_jws(&storage, frag, payload, &o).await {
        Ok(j) => j,
        // an unencoded attached payload containing '.' cannot be put into the compact form: the only refusal expected here
        Err(e) => { if b64 == Some(false) && !detached && payload.contains(&b'.') { continue; } return Err(format!("{what}: create_jws failed: {e}")); }
      };
      made += 1;
      let text = jws.as_str();
      // the decoder takes a detached payload in the form it has inside the signing input: base64url unless b64 = false
      let dp: Vec<u8> = if b64 == Some(false) { payload.to_vec() } else { identity_verification::jose::jwu::encode_b64(payload).into_bytes() };
      let payload_arg = dp.as_slice();
      if detached != text.contains("..") { return Err(format!("{what}: detached = {detached} but the token is {text}")); }
      let item = Decoder::new().decode_compact_serialization(text.as_bytes(), if detached { Some(payload_arg) } else { None }).map_err(|e| format!("{what}: produced token does not decode: {e}: {text}"))?;
      // verifies under the method's own key, and under no other
      let decoded = item.verify(&EdDSAJwsVerifier::default(), own).map_err(|e| format!("{what}: produced token does not verify under the method's key: {e}"))?;
      if &*decoded.claims != payload { return Err(format!("{what}: claims {:?}", String::from_utf8_lossy(&decoded.claims))); }
      let h = &decoded.protected;
      let want_kid = kid.map(str::to_owned).unwrap_or_else(|| format!("did:example:signer#{frag}"));
      if h.alg() != Some(JwsAlgorithm::EdDSA) || h.kid() != Some(want_kid.as_str()) { return Err(format!("{what}: header alg {:?} kid {:?}", h.alg(), h.kid())); }
      if h.typ() != Some(typ.unwrap_or("JWT")) || h.nonce() != nonce { return Err(format!("{what}: header typ {:?} nonce {:?}", h.typ(), h.nonce())); }
      if h.jwk().is_some() != attach || (attach && h.jwk() != Some(own)) { return Err(format!("{what}: attached key {:?}", h.jwk().is_some())); }
      let (want_b64, want_crit) = if b64 == Some(false) { (Some(false), Some(vec!["b64".to_owned()])) } else { (None, None) };
      if h.b64() != want_b64 || h.crit().map(|c| c.to_vec()) != want_crit { return Err(format!("{what}: header b64 {:?} crit {:?}", h.b64(), h.crit())); }
      let item2 = Decoder::new().decode_compact_serialization(text.as_bytes(), if detached { Some(payload_arg) } else { None }).map_err(|e| e.to_string())?;
      if item2.verify(&EdDSAJwsVerifier::default(), other).is_ok() { return Err(format!("{what}: the token verifies under ANOTHER method's key")); }
      if detached {
        let mut tampered = payload_arg.to_vec(); tampered.push(b'x');
        if let Ok(item3) = Decoder::new().decode_compact_serialization(text.as_bytes(), Some(&tampered)) { if item3.verify(&EdDSAJwsVerifier::default(), own).is_ok() { return Err(format!("{what}: verifies for another detached payload")); } }
      }
    } } } }
  } } } }
  if made < 600 { return Err(format!("only {made} tokens produced")); }
  // unknown fragment / non-JWK method are refused
  if doc.create_jws(&storage, "nope", b"{}", &JwsSignatureOptions::new()).await.is_ok() { return Err("create_jws for an unknown fragment succeeded".into()); }
  Ok(())
}
fn w(name: &str, r: Result<(), String>) { match r { Ok(()) => println!("WITNESS {name} OK"), Err(e) => println!("WITNESS {name} FAIL {e}") } }
fn main() {
  let rt = tokio::runtime::Builder::new_current_thread().enable_all().build().unwrap();
  w("sj_created_jws_decodes_and_verifies_grid", rt.block_on(grid()));
}
