// Concrete witnesses for the `did` unit, run against the real crate (public API only).
use identity_did::{CoreDID, DIDUrl, DID};
use std::panic::catch_unwind;

fn w(name: &str, f: impl FnOnce() -> Result<(), String> + std::panic::UnwindSafe) {
  match catch_unwind(f) {
    Ok(Ok(())) => println!("WITNESS {name} OK"),
    Ok(Err(e)) => println!("WITNESS {name} FAIL {e}"),
    Err(_) => println!("WITNESS {name} FAIL panicked"),
  }
}
/// an accepted plain DID must be canonical: no url parts, components re-concatenate, components valid
fn plain_did_ok(s: &str) -> Result<(), String> {
  match CoreDID::parse(s) {
    Err(_) => Ok(()),
    Ok(d) => {
      let recomposed = format!("did:{}:{}", d.method(), d.method_id());
      if d.as_str() != s { return Err(format!("parse({s:?}).as_str() = {:?}", d.as_str())); }
      if recomposed != s { return Err(format!("parse({s:?}) accepted but components are method={:?} id={:?}", d.method(), d.method_id())); }
      if s.contains('#') || s.contains('/') || s.contains('?') || s.contains(' ') { return Err(format!("plain DID accepted with stray part: {s:?}")); }
      if !d.method().chars().all(|c| c.is_ascii_lowercase() || c.is_ascii_digit()) { return Err(format!("bad method name {:?}", d.method())); }
      Ok(())
    }
  }
}

/// W3C DID syntax, written independently of the code:  method-specific-id = *( *idchar ":" ) 1*idchar,
/// idchar = ALPHA / DIGIT / "." / "-" / "_" / pct-encoded, pct-encoded = "%" HEXDIG HEXDIG.
/// (the crate deliberately also admits empty idchar runs - "a::b", a trailing ':' - which is not part of this check)
fn w3c_idchars(s: &str) -> bool {
  let b: Vec<char> = s.chars().collect();
  let mut i = 0;
  while i < b.len() {
    let c = b[i];
    if c == '%' {
      if i + 2 >= b.len() { return false; }
      if !(b[i + 1].is_ascii_hexdigit() && b[i + 2].is_ascii_hexdigit()) { return false; }
      i += 3;
    } else if c.is_ascii_alphanumeric() || c == '.' || c == '-' || c == '_' || c == ':' { i += 1; } else { return false; }
  }
  true
}
/// D13: every method id over an adversarial alphabet up to 5 characters, against the grammar
fn method_id_grammar_small_scope() -> Result<(), String> {
  let alphabet = ['a', 'F', 'g', '0', '9', '%', '+', '-', ':', '.', '_', ' ', 'é', '/', '#'];
  let mut cur: Vec<usize> = vec![];
  let mut count = 0u32;
  loop {
    // next string in length-lexicographic order
    let mut k = cur.len();
    loop {
      if k == 0 { cur = vec![0; cur.len() + 1]; break; }
      k -= 1;
      if cur[k] + 1 < alphabet.len() { cur[k] += 1; for j in k + 1..cur.len() { cur[j] = 0; } break; }
    }
    if cur.len() > 5 { break; }
    let s: String = cur.iter().map(|&i| alphabet[i]).collect();
    let got = CoreDID::valid_method_id(&s).is_ok();
    if got != w3c_idchars(&s) { return Err(format!("valid_method_id({s:?}) = {got}, the W3C grammar says {}", !got)); }
    count += 1;
  }
  if count < 800_000 { return Err(format!("only {count} strings enumerated")); }
  // and through the public entry points: accepted => the method id is grammatical (D5's inputs excluded: they panic in the dependency)
  for s in ["did:example:%+fabc", "did:example:a%+1b", "did:example:a%-1b", "did:example:a% 1b", "did:example:a%1", "did:example:a%é1b"] {
    if let Ok(d) = CoreDID::parse(s) { if !w3c_idchars(d.method_id()) { return Err(format!("CoreDID::parse accepts {s:?} with method id {:?}", d.method_id())); } }
    if let Ok(d) = DIDUrl::parse(s) { if !w3c_idchars(d.did().method_id()) { return Err(format!("DIDUrl::parse accepts {s:?}")); } }
  }
  Ok(())
}

fn main() {
  std::panic::set_hook(Box::new(|_| {}));
  w("did_method_id_grammar_small_scope", method_id_grammar_small_scope);
  w("did_plain_did_with_url_parts", || { for s in ["did:example:123#frag", "did:example:123/path?q=1", "did:example:123?q=1", "did:example:123/p", "did:example:123#", "did:example:123?", "did:example:123/"] { plain_did_ok(s)?; } Ok(()) });
  w("did_plain_did_with_whitespace", || { for s in [" did:example:123", "did:example:123 ", "did:example:%41/x", "did:example:%41 x"] { plain_did_ok(s)?; } Ok(()) });
  w("did_trailing_percent_triple", || { for s in ["did:example:%41", "did:example:%+f", "did:example:abc%7e"] { plain_did_ok(s)?; } Ok(()) });
  w("did_url_trailing_percent_triple", || { for s in ["did:example:1/p%41", "did:example:1?q=%41", "did:example:1#f%41"] { let _ = DIDUrl::parse(s); } Ok(()) });
  w("did_valid_dids_accepted_verbatim", || {
    for s in ["did:example:123", "did:iota:main:0xabc", "did:a1:A.b-c_d:e", "did:example:a%41b"] {
      let d = CoreDID::parse(s).map_err(|e| format!("{s:?} rejected: {e}"))?;
      if d.as_str() != s || format!("did:{}:{}", d.method(), d.method_id()) != s { return Err(format!("{s:?} not reproduced verbatim")); }
    }
    Ok(())
  });
  w("did_setters_reject_and_keep", || {
    let mut d = CoreDID::parse("did:example:123").map_err(|e| e.to_string())?;
    if d.set_method_name("Ex ample").is_ok() || d.as_str() != "did:example:123" { return Err("set_method_name accepted/changed on invalid input".into()); }
    if d.set_method_id("a b").is_ok() || d.as_str() != "did:example:123" { return Err("set_method_id accepted/changed on invalid input".into()); }
    d.set_method_name("foo").map_err(|e| e.to_string())?; d.set_method_id("x:y").map_err(|e| e.to_string())?;
    if d.as_str() != "did:foo:x:y" || CoreDID::parse(d.as_str()).ok().as_ref() != Some(&d) { return Err(format!("setters produced {:?}", d.as_str())); }
    Ok(())
  });
}
