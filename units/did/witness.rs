// Concrete witnesses for the `did` unit, run against the real crate (public API only).
use identity_did::{CoreDID, DIDUrl, DID};
use std::panic::catch_unwind;

fn w(name: &str, f: impl FnOnce() -> Result<(), String> + std::panic::UnwindSafe) {
  match catch_unwind(f) {
    Ok(Ok(())) => println!("WITNESS {name} OK"),
    Ok(Err(e)) => println!("WITNESS {name} FAIL {e}"),
    Err(_) => println!("WITNESS {name} FAIL panicked"),
  }
}
/// an accepted plain DID must be canonical: no url parts, components re-concatenate, components valid
fn plain_did_ok(s: &str) -> Result<(), String> {
  match CoreDID::parse(s) {
    Err(_) => Ok(()),
    Ok(d) => {
      let recomposed = format!("did:{}:{}", d.method(), d.method_id());
      if d.as_str() != s { return Err(format!("parse({s:?}).as_str() = {:?}", d.as_str())); }
      if recomposed != s { return Err(format!("parse({s:?}) accepted but components are method={:?} id={:?}", d.method(), d.method_id())); }
      if s.contains('#') || s.contains('/') || s.contains('?') || s.contains(' ') { return Err(format!("plain DID accepted with stray part: {s:?}")); }
      if !d.method().chars().all(|c| c.is_ascii_lowercase() || c.is_ascii_digit()) { return Err(format!("bad method name {:?}", d.method())); }
      Ok(())
    }
  }
}

fn main() {
  std::panic::set_hook(Box::new(|_| {}));
  w("did_plain_did_with_url_parts", || { for s in ["did:example:123#frag", "did:example:123/path?q=1", "did:example:123?q=1", "did:example:123/p", "did:example:123#", "did:example:123?", "did:example:123/"] { plain_did_ok(s)?; } Ok(()) });
  w("did_plain_did_with_whitespace", || { for s in [" did:example:123", "did:example:123 ", "did:example:%41/x", "did:example:%41 x"] { plain_did_ok(s)?; } Ok(()) });
  w("did_trailing_percent_triple", || { for s in ["did:example:%41", "did:example:%+f", "did:example:abc%7e"] { plain_did_ok(s)?; } Ok(()) });
  w("did_url_trailing_percent_triple", || { for s in ["did:example:1/p%41", "did:example:1?q=%41", "did:example:1#f%41"] { let _ = DIDUrl::parse(s); } Ok(()) });
  w("did_valid_dids_accepted_verbatim", || {
    for s in ["did:example:123", "did:iota:main:0xabc", "did:a1:A.b-c_d:e", "did:example:a%41b"] {
      let d = CoreDID::parse(s).map_err(|e| format!("{s:?} rejected: {e}"))?;
      if d.as_str() != s || format!("did:{}:{}", d.method(), d.method_id()) != s { return Err(format!("{s:?} not reproduced verbatim")); }
    }
    Ok(())
  });
  w("did_setters_reject_and_keep", || {
    let mut d = CoreDID::parse("did:example:123").map_err(|e| e.to_string())?;
    if d.set_method_name("Ex ample").is_ok() || d.as_str() != "did:example:123" { return Err("set_method_name accepted/changed on invalid input".into()); }
    if d.set_method_id("a b").is_ok() || d.as_str() != "did:example:123" { return Err("set_method_id accepted/changed on invalid input".into()); }
    d.set_method_name("foo").map_err(|e| e.to_string())?; d.set_method_id("x:y").map_err(|e| e.to_string())?;
    if d.as_str() != "did:foo:x:y" || CoreDID::parse(d.as_str()).ok().as_ref() != Some(&d) { return Err(format!("setters produced {:?}", d.as_str())); }
    Ok(())
  });
}
