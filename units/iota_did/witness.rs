// Concrete witnesses for the `iota_did` unit, run against the real crate (public API only).
use identity_did::{CoreDID, DID};
use identity_iota_core::{IotaDID, NetworkName};
use std::panic::catch_unwind;

fn w(name: &str, f: impl FnOnce() -> Result<(), String> + std::panic::UnwindSafe) {
  match catch_unwind(f) {
    Ok(Ok(())) => println!("WITNESS {name} OK"),
    Ok(Err(e)) => println!("WITNESS {name} FAIL {e}"),
    Err(_) => println!("WITNESS {name} FAIL panicked"),
  }
}
const TAG: &str = "0xf29dd16310c2100fd1bf568b345fb1cc14d71caa3bd9b5ad735d2bd6d455ca3b";

fn main() {
  std::panic::set_hook(Box::new(|_| {}));
  w("id_network_name_rule", || {
    for (name, want) in [("iota", true), ("a", true), ("0", true), ("abc123", true), ("smr", true), ("", false), ("abcdefg", false), ("Main", false), ("a-b", false), ("a b", false), ("a:b", false),
                         ("rms\u{0663}", false), ("dev\u{00b2}", false), ("\u{00bd}", false), ("\u{00e9}", false), ("ab\u{0131}", false), ("\u{ff11}", false)] {
      let got = NetworkName::try_from(name.to_owned()).is_ok();
      if got != want { return Err(format!("network name {name:?}: accepted={got}, expected={want}")); }
      if NetworkName::validate_network_name(name).is_ok() != want { return Err(format!("validate_network_name({name:?}) disagrees")); }
      // every accepted name must be usable to build a DID that exposes exactly that name and tag
      if let Ok(n) = NetworkName::try_from(name.to_owned()) {
        let did = IotaDID::new(&[7u8; 32], &n);
        if did.network_str() != name { return Err(format!("new(.., {name:?}).network_str() = {:?}", did.network_str())); }
        if did.tag_str() != format!("0x{}", "07".repeat(32)) { return Err(format!("new(.., {name:?}).tag_str() = {:?}", did.tag_str())); }
      }
    }
    Ok(())
  });
  w("id_normal_form_and_decomposition", || {
    for (input, want) in [
      (format!("did:iota:{TAG}"), Some(format!("did:iota:{TAG}"))),
      (format!("did:iota:iota:{TAG}"), Some(format!("did:iota:{TAG}"))),
      (format!("did:iota:smr:{TAG}"), Some(format!("did:iota:smr:{TAG}"))),
      (format!("did:iota:iota1:{TAG}"), Some(format!("did:iota:iota1:{TAG}"))),
      (format!("did:iota:iotax:{TAG}"), Some(format!("did:iota:iotax:{TAG}"))),
      (format!("did:iota:io:{TAG}"), Some(format!("did:iota:io:{TAG}"))),
      (format!("did:iota:{TAG}#"), None),
      (format!("did:iota:smr:{TAG}#"), None),
      (format!("did:iota:{TAG}?"), None),
      (format!("DID:IOTA:SMR:{}", TAG.to_uppercase().replace("0X", "0x")), Some(format!("did:iota:smr:{TAG}"))),
      (format!("did:iota:iota:iota:{TAG}"), None),
      (format!("did:iota:iota:smr:{TAG}"), None),
      (format!("did:iota:smr:iota:{TAG}"), None),
      (format!("did:iota::{TAG}"), None),
      (format!("did:iota:toolong:{TAG}"), None),
      (format!("did:key:{TAG}"), None),
      (format!("did:iota:{TAG}#frag"), None),
      (format!("did:iota:{TAG}/path"), None),
      (format!("did:iota:{TAG}?q=1"), None),
    ] {
      let got = IotaDID::parse(&input).ok();
      match (&got, &want) {
        (None, None) => {}
        (Some(d), Some(w)) => {
          if d.as_str() != w { return Err(format!("{input:?} is held as {:?}, expected {w:?}", d.as_str())); }
          let net = d.network_str(); let tag = d.tag_str();
          let recomposed = if net == "iota" { format!("did:iota:{tag}") } else { format!("did:iota:{net}:{tag}") };
          if recomposed != d.as_str() { return Err(format!("{input:?}: network {net:?} + tag {tag:?} do not recompose {:?}", d.as_str())); }
          let again = IotaDID::parse(d.as_str()).map_err(|e| format!("{:?} does not re-parse: {e}", d.as_str()))?;
          if &again != d { return Err(format!("{:?} re-parses to a different value", d.as_str())); }
        }
        _ => return Err(format!("{input:?}: accepted={}, expected accepted={}", got.is_some(), want.is_some())),
      }
      // TryFrom<CoreDID> agrees with parse
      if let Ok(core) = CoreDID::parse(input.to_lowercase()) {
        let via_core = IotaDID::try_from_core(core.clone()).ok();
        if via_core.is_some() != want.is_some() { return Err(format!("try_from_core({input:?}) accepted={}, expected={}", via_core.is_some(), want.is_some())); }
        if IotaDID::is_valid(&core) != want.is_some() { return Err(format!("is_valid({input:?}) disagrees")); }
        if let (Some(v), Some(w)) = (via_core, &want) { if v.as_str() != w { return Err(format!("try_from_core({input:?}) is held as {:?}", v.as_str())); } }
      }
    }
    Ok(())
  });
  w("id_tag_is_exactly_32_bytes", || {
    for (tag, want) in [(TAG.to_owned(), true), (format!("0x{}", "ab".repeat(31)), false), (format!("0x{}", "ab".repeat(33)), false), (format!("0x{}", "ab".repeat(64)), false),
                        (format!("0x{}", "ab".repeat(32)), true), ("0x".to_owned(), false), (TAG[2..].to_owned(), false), (format!("0x{}g", &TAG[2..65]), false), (format!("0x{}", &TAG[2..65]), false)] {
      for net in ["", "smr:"] {
        let input = format!("did:iota:{net}{tag}");
        let got = IotaDID::parse(&input).is_ok();
        if got != want { return Err(format!("{input:?}: accepted={got}, expected={want}")); }
      }
    }
    Ok(())
  });
  w("id_equal_iff_network_and_tag", || {
    let nets = ["iota", "smr", "rms"]; let tags = [[1u8; 32], [2u8; 32]];
    let mut all = vec![];
    for n in nets { for t in tags { all.push((n, t, IotaDID::new(&t, &NetworkName::try_from(n).unwrap()))); } }
    for (n1, t1, d1) in &all { for (n2, t2, d2) in &all {
      if (d1 == d2) != (n1 == n2 && t1 == t2) { return Err(format!("{d1} == {d2} is {} but networks/tags say {}", d1 == d2, n1 == n2 && t1 == t2)); }
    } }
    if IotaDID::parse(format!("did:iota:iota:{TAG}")).unwrap() != IotaDID::parse(format!("did:iota:{TAG}")).unwrap() { return Err("explicit default network is a different DID".into()); }
    if !IotaDID::placeholder(&NetworkName::try_from("smr").unwrap()).is_placeholder() { return Err("placeholder is not a placeholder".into()); }
    Ok(())
  });
}
