// Concrete witnesses for the `iota_did` unit, run against the real crate (public API only).
use identity_did::{CoreDID, DID};
use identity_iota_core::{IotaDID, NetworkName};
use std::panic::catch_unwind;

fn w(name: &str, f: impl FnOnce() -> Result<(), String> + std::panic::UnwindSafe) {
  match catch_unwind(f) {
    Ok(Ok(())) => println!("WITNESS {name} OK"),
    Ok(Err(e)) => println!("WITNESS {name} FAIL {e}"),
    Err(_) => println!("WITNESS {name} FAIL panicked"),
  }
}
const TAG: &str = "0xf29dd16310c2100fd1bf568b345fb1cc14d71caa3bd9b5ad735d2bd6d455ca3b";

/// C17 as a BOUNDED grid over did:<method>:<segments>[suffix]: whatever IotaDID::parse accepts has the stated shape, is
/// in normal form, recomposes and re-parses; two accepted values are equal exactly when network and tag bytes agree
fn parse_grid_shape_and_equality() -> Result<(), String> {
  let hex64 = "f29dd16310c2100fd1bf568b345fb1cc14d71caa3bd9b5ad735d2bd6d455ca3b";
  let other64 = "0000000000000000000000000000000000000000000000000000000000000001";
  let tags: Vec<String> = vec![
    format!("0x{hex64}"), format!("0x{}", hex64.to_uppercase()), format!("0X{hex64}"), hex64.to_owned(), format!("0x{}", &hex64[..63]), format!("0x{hex64}0"),
    format!("0x{}g", &hex64[..63]), format!("0x{}\u{e9}", &hex64[..62]), format!("0x{other64}"), "0x".to_owned(), String::new(), format!("0x{}", &hex64[..62]),
  ];
  let methods = ["iota", "IOTA", "Iota", "iot", "iotas"];
  let networks: [Option<&str>; 12] = [None, Some(""), Some("rms"), Some("RMS"), Some("Smr"), Some("a1b2c3"), Some("toolong"), Some("a-b"), Some("\u{e9}"), Some("iota"), Some("IOTA"), Some("0")];
  let extras = ["", ":x", ":"];
  let suffixes = ["", "/p", "?q", "#f", "/"];
  let mut accepted: Vec<(String, IotaDID)> = vec![];
  let mut n = 0u32;
  for m in methods { for net in networks { for tag in &tags { for extra in extras { for suffix in suffixes {
    let text = format!("did:{m}:{}{tag}{extra}{suffix}", net.map(|x| format!("{x}:")).unwrap_or_default());
    n += 1;
    let r = catch_unwind(|| IotaDID::parse(&text)).map_err(|_| format!("IotaDID::parse({text:?}) PANICS"))?;
    if let Ok(d) = r {
      let (network, t) = (d.network_str().to_owned(), d.tag_str().to_owned());
      if d.method() != "iota" { return Err(format!("{text:?} accepted with method {:?}", d.method())); }
      if network.is_empty() || network.len() > 6 || !network.chars().all(|c| c.is_ascii_lowercase() || c.is_ascii_digit()) { return Err(format!("{text:?} accepted with network {network:?}")); }
      if t.len() != 66 || !t.starts_with("0x") || !t[2..].chars().all(|c| c.is_ascii_hexdigit()) { return Err(format!("{text:?} accepted with tag {t:?}")); }
      let s = d.to_string();
      if s != s.to_lowercase() { return Err(format!("{text:?} is held as {s:?}: not lowercase")); }
      let expect = if network == "iota" { format!("did:iota:{t}") } else { format!("did:iota:{network}:{t}") };
      if s != expect { return Err(format!("{text:?} is held as {s:?}, network / tag recompose to {expect:?}")); }
      if s.contains('/') || s.contains('?') || s.contains('#') { return Err(format!("{text:?} accepted with a url part: {s:?}")); }
      match IotaDID::parse(&s) { Ok(again) if again == d => {}, other => return Err(format!("{s:?} re-parses to {other:?}")) }
      // only the stated liberties: case, and the explicit default network
      if text.to_lowercase().replace("did:iota:iota:", "did:iota:") != s { return Err(format!("{text:?} was accepted as {s:?}")); }
      accepted.push((text, d));
    }
  } } } } }
  if accepted.len() < 20 || n < 3000 { return Err(format!("{n} strings, {} accepted", accepted.len())); }
  for (ta, a) in &accepted { for (tb, b) in &accepted {
    let same = a.network_str() == b.network_str() && a.tag_str() == b.tag_str();
    if (a == b) != same { return Err(format!("{ta:?} == {tb:?} is {}, but network/tag agree = {same}", a == b)); }
    if same && a.to_string() != b.to_string() { return Err(format!("equal values print differently: {ta:?} / {tb:?}")); }
  } }
  // built from bytes + name: exposes exactly those
  for net in ["iota", "rms", "a1b2c3", "0"] { for b in [[0u8; 32], [0xffu8; 32], { let mut x = [0u8; 32]; x[0] = 0xf2; x[31] = 0x3b; x }] {
    let name = NetworkName::try_from(net.to_owned()).map_err(|e| e.to_string())?;
    let d = IotaDID::new(&b, &name);
    let hex: String = b.iter().map(|x| format!("{x:02x}")).collect();
    if d.network_str() != net || d.tag_str() != format!("0x{hex}") { return Err(format!("IotaDID::new({net}, {hex}) exposes {} / {}", d.network_str(), d.tag_str())); }
    if IotaDID::parse(d.to_string()).ok().as_ref() != Some(&d) || IotaDID::from_alias_id(&format!("0x{hex}"), &name) != d { return Err(format!("IotaDID::new({net}, {hex}) does not round trip")); }
  } }
  Ok(())
}

fn main() {
  std::panic::set_hook(Box::new(|_| {}));
  w("id_parse_grid_shape_and_equality", parse_grid_shape_and_equality);
  w("id_network_name_rule", || {
    for (name, want) in [("iota", true), ("a", true), ("0", true), ("abc123", true), ("smr", true), ("", false), ("abcdefg", false), ("Main", false), ("a-b", false), ("a b", false), ("a:b", false),
                         ("rms\u{0663}", false), ("dev\u{00b2}", false), ("\u{00bd}", false), ("\u{00e9}", false), ("ab\u{0131}", false), ("\u{ff11}", false)] {
      let got = NetworkName::try_from(name.to_owned()).is_ok();
      if got != want { return Err(format!("network name {name:?}: accepted={got}, expected={want}")); }
      if NetworkName::validate_network_name(name).is_ok() != want { return Err(format!("validate_network_name({name:?}) disagrees")); }
      // every accepted name must be usable to build a DID that exposes exactly that name and tag
      if let Ok(n) = NetworkName::try_from(name.to_owned()) {
        let did = IotaDID::new(&[7u8; 32], &n);
        if did.network_str() != name { return Err(format!("new(.., {name:?}).network_str() = {:?}", did.network_str())); }
        if did.tag_str() != format!("0x{}", "07".repeat(32)) { return Err(format!("new(.., {name:?}).tag_str() = {:?}", did.tag_str())); }
      }
    }
    Ok(())
  });
  w("id_normal_form_and_decomposition", || {
    for (input, want) in [
      (format!("did:iota:{TAG}"), Some(format!("did:iota:{TAG}"))),
      (format!("did:iota:iota:{TAG}"), Some(format!("did:iota:{TAG}"))),
      (format!("did:iota:smr:{TAG}"), Some(format!("did:iota:smr:{TAG}"))),
      (format!("did:iota:iota1:{TAG}"), Some(format!("did:iota:iota1:{TAG}"))),
      (format!("did:iota:iotax:{TAG}"), Some(format!("did:iota:iotax:{TAG}"))),
      (format!("did:iota:io:{TAG}"), Some(format!("did:iota:io:{TAG}"))),
      (format!("did:iota:{TAG}#"), None),
      (format!("did:iota:smr:{TAG}#"), None),
      (format!("did:iota:{TAG}?"), None),
      (format!("DID:IOTA:SMR:{}", TAG.to_uppercase().replace("0X", "0x")), Some(format!("did:iota:smr:{TAG}"))),
      (format!("did:iota:iota:iota:{TAG}"), None),
      (format!("did:iota:iota:smr:{TAG}"), None),
      (format!("did:iota:smr:iota:{TAG}"), None),
      (format!("did:iota::{TAG}"), None),
      (format!("did:iota:toolong:{TAG}"), None),
      (format!("did:key:{TAG}"), None),
      (format!("did:iota:{TAG}#frag"), None),
      (format!("did:iota:{TAG}/path"), None),
      (format!("did:iota:{TAG}?q=1"), None),
    ] {
      let got = IotaDID::parse(&input).ok();
      match (&got, &want) {
        (None, None) => {}
        (Some(d), Some(w)) => {
          if d.as_str() != w { return Err(format!("{input:?} is held as {:?}, expected {w:?}", d.as_str())); }
          let net = d.network_str(); let tag = d.tag_str();
          let recomposed = if net == "iota" { format!("did:iota:{tag}") } else { format!("did:iota:{net}:{tag}") };
          if recomposed != d.as_str() { return Err(format!("{input:?}: network {net:?} + tag {tag:?} do not recompose {:?}", d.as_str())); }
          let again = IotaDID::parse(d.as_str()).map_err(|e| format!("{:?} does not re-parse: {e}", d.as_str()))?;
          if &again != d { return Err(format!("{:?} re-parses to a different value", d.as_str())); }
        }
        _ => return Err(format!("{input:?}: accepted={}, expected accepted={}", got.is_some(), want.is_some())),
      }
      // TryFrom<CoreDID> agrees with parse
      if let Ok(core) = CoreDID::parse(input.to_lowercase()) {
        let via_core = IotaDID::try_from_core(core.clone()).ok();
        if via_core.is_some() != want.is_some() { return Err(format!("try_from_core({input:?}) accepted={}, expected={}", via_core.is_some(), want.is_some())); }
        if IotaDID::is_valid(&core) != want.is_some() { return Err(format!("is_valid({input:?}) disagrees")); }
        if let (Some(v), Some(w)) = (via_core, &want) { if v.as_str() != w { return Err(format!("try_from_core({input:?}) is held as {:?}", v.as_str())); } }
      }
    }
    Ok(())
  });
  w("id_tag_is_exactly_32_bytes", || {
    for (tag, want) in [(TAG.to_owned(), true), (format!("0x{}", "ab".repeat(31)), false), (format!("0x{}", "ab".repeat(33)), false), (format!("0x{}", "ab".repeat(64)), false),
                        (format!("0x{}", "ab".repeat(32)), true), ("0x".to_owned(), false), (TAG[2..].to_owned(), false), (format!("0x{}g", &TAG[2..65]), false), (format!("0x{}", &TAG[2..65]), false)] {
      for net in ["", "smr:"] {
        let input = format!("did:iota:{net}{tag}");
        let got = IotaDID::parse(&input).is_ok();
        if got != want { return Err(format!("{input:?}: accepted={got}, expected={want}")); }
      }
    }
    Ok(())
  });
  w("id_equal_iff_network_and_tag", || {
    let nets = ["iota", "smr", "rms"]; let tags = [[1u8; 32], [2u8; 32]];
    let mut all = vec![];
    for n in nets { for t in tags { all.push((n, t, IotaDID::new(&t, &NetworkName::try_from(n).unwrap()))); } }
    for (n1, t1, d1) in &all { for (n2, t2, d2) in &all {
      if (d1 == d2) != (n1 == n2 && t1 == t2) { return Err(format!("{d1} == {d2} is {} but networks/tags say {}", d1 == d2, n1 == n2 && t1 == t2)); }
    } }
    if IotaDID::parse(format!("did:iota:iota:{TAG}")).unwrap() != IotaDID::parse(format!("did:iota:{TAG}")).unwrap() { return Err("explicit default network is a different DID".into()); }
    if !IotaDID::placeholder(&NetworkName::try_from("smr").unwrap()).is_placeholder() { return Err("placeholder is not a placeholder".into()); }
    Ok(())
  });
}
