// Concrete witnesses for the `did_url` unit (public API of identity_did).
use identity_did::{DIDUrl, RelativeDIDUrl};
use std::cmp::Ordering;
use std::panic::catch_unwind;
fn w(name: &str, f: impl FnOnce() -> Result<(), String> + std::panic::UnwindSafe) {
  match catch_unwind(f) {
    Ok(Ok(())) => println!("WITNESS {name} OK"),
    Ok(Err(e)) => println!("WITNESS {name} FAIL {e}"),
    Err(_) => println!("WITNESS {name} FAIL panicked"),
  }
}
fn rel(p: Option<&str>, q: Option<&str>, f: Option<&str>) -> RelativeDIDUrl {
  let mut r = RelativeDIDUrl::new();
  r.set_path(p).unwrap(); r.set_query(q).unwrap(); r.set_fragment(f).unwrap();
  r
}
// ---- W3C DID URL syntax (did-core 3.2 / RFC 3986), written independently of the code ----
fn unreserved(c: char) -> bool { c.is_ascii_alphanumeric() || matches!(c, '-' | '.' | '_' | '~') }
fn sub_delim(c: char) -> bool { matches!(c, '!' | '$' | '&' | '\'' | '(' | ')' | '*' | '+' | ',' | ';' | '=') }
/// every character is `ok` or starts a pct-encoded triple "%" HEXDIG HEXDIG
fn grammatical(s: &str, ok: impl Fn(char) -> bool) -> bool {
  let b: Vec<char> = s.chars().collect();
  let mut i = 0;
  while i < b.len() {
    if b[i] == '%' { if i + 2 >= b.len() || !b[i + 1].is_ascii_hexdigit() || !b[i + 2].is_ascii_hexdigit() { return false; } i += 3; }
    else if ok(b[i]) { i += 1 } else { return false; }
  }
  true
}
fn pchar(c: char) -> bool { unreserved(c) || sub_delim(c) || c == ':' || c == '@' }
fn path_ok(p: &str) -> bool { p.is_empty() || (p.starts_with('/') && grammatical(p, |c| pchar(c) || c == '/')) }
fn query_ok(q: &str) -> bool { grammatical(q, |c| pchar(c) || c == '/' || c == '?') }
/// D5 (open, dependency): did_url_parser 0.3.0 skips one character after every %XX triple - it PANICS when the triple ends
/// the input and swallows a '?' / '#' delimiter that follows a triple (so such a value does not re-parse)
fn d5_input(s: &str) -> bool {
  let b: Vec<char> = s.chars().collect();
  (0..b.len()).any(|i| b[i] == '%' && i + 2 < b.len() && u8::from_str_radix(&b[i + 1..i + 3].iter().collect::<String>(), 16).is_ok()
    && (i + 3 == b.len() || matches!(b[i + 3], '?' | '#' | '/')))
}
fn all_strings(alphabet: &[char], max: usize, mut f: impl FnMut(&str) -> Result<(), String>) -> Result<u32, String> {
  let mut cur: Vec<usize> = vec![];
  let mut n = 0;
  loop {
    let mut k = cur.len();
    loop {
      if k == 0 { cur = vec![0; cur.len() + 1]; break; }
      k -= 1;
      if cur[k] + 1 < alphabet.len() { cur[k] += 1; for j in k + 1..cur.len() { cur[j] = 0; } break; }
    }
    if cur.len() > max { return Ok(n); }
    let s: String = cur.iter().map(|&i| alphabet[i]).collect();
    f(&s)?; n += 1;
  }
}
/// C10 as a bounded exhaustive check: whatever DIDUrl::parse accepts is reproduced verbatim, decomposes, and each
/// component is grammatical; whatever a setter / join accepts re-parses to itself, whatever it rejects changes nothing
fn small_scope_accepted_implies_grammatical() -> Result<(), String> {
  let alphabet = ['a', 'G', '1', '%', '4', '/', '?', '#', ' ', '{', '\u{e9}', ':', '+', '~'];
  let n = all_strings(&alphabet, 4, |t| {
    let input = format!("did:example:x{t}");
    if !d5_input(&input) {
      if let Ok(u) = DIDUrl::parse(&input) {
        if u.to_string() != input { return Err(format!("parse({input:?}) prints {:?}", u.to_string())); }
        let (p, q, f) = (u.path().unwrap_or(""), u.query(), u.fragment());
        let re = format!("{}{}{}{}", u.did(), p, q.map(|x| format!("?{x}")).unwrap_or_default(), f.map(|x| format!("#{x}")).unwrap_or_default());
        if re != input { return Err(format!("parse({input:?}): components re-concatenate to {re:?}")); }
        if !path_ok(p) || !q.map_or(true, query_ok) || !f.map_or(true, query_ok) { return Err(format!("parse({input:?}) accepted with path {p:?} query {q:?} fragment {f:?}")); }
        if !grammatical(identity_did::DID::method_id(u.did()), |c| c.is_ascii_alphanumeric() || matches!(c, '.' | '-' | '_' | ':')) { return Err(format!("parse({input:?}) accepted with method id {:?}", identity_did::DID::method_id(u.did()))); }
        // every accessor / conversion of an accepted value is total (C05): From<DIDUrl> for Url carries an `expect`
        let u2 = u.clone();
        if catch_unwind(move || { let _ = identity_core::common::Url::from(u2.clone()); let _ = String::from(u2.clone()); let _ = u2.query_pairs().count(); let _ = format!("{u2:?}"); }).is_err() {
          return Err(format!("an accessor / conversion PANICS on the accepted value {input:?}"));
        }
      }
    }
    // setters on a fixed base value
    for which in 0..4 {
      let mut u = DIDUrl::parse("did:example:x/p?q#f").map_err(|e| e.to_string())?;
      let before = u.to_string();
      let r = match which { 0 => u.set_path(Some(t)).is_ok(), 1 => u.set_query(Some(t)).is_ok(), 2 => u.set_fragment(Some(t)).is_ok(),
        _ => { if d5_input(&format!("{before}{t}")) || d5_input(t) { return Ok(()); } match u.join(t) { Ok(j) => { u = j; true } Err(_) => false } } };
      let after = u.to_string();
      if !r { if after != before { return Err(format!("rejected operation {which} with {t:?} changed the value to {after:?}")); } continue; }
      if d5_input(&after) { continue; }
      match DIDUrl::parse(&after) {
        Ok(v) if v == u && v.to_string() == after => {}
        other => return Err(format!("operation {which} with {t:?} accepted, giving {after:?}, which re-parses to {:?}", other.map(|v| v.to_string()))),
      }
      let (p, q, f) = (u.path().unwrap_or(""), u.query(), u.fragment());
      if !path_ok(p) || !q.map_or(true, query_ok) || !f.map_or(true, query_ok) { return Err(format!("operation {which} with {t:?} accepted, giving path {p:?} query {q:?} fragment {f:?}")); }
    }
    Ok(())
  })?;
  if n < 40_000 { return Err(format!("only {n} strings enumerated")); }
  Ok(())
}

fn main() {
  std::panic::set_hook(Box::new(|_| {}));
  w("du_small_scope_accepted_implies_grammatical", small_scope_accepted_implies_grammatical);
  // D5 (open, dependency): a percent triple directly before '#' / '?' / end makes did_url_parser swallow the delimiter
  w("du_percent_triple_before_delimiter", || {
    let mut u = DIDUrl::parse("did:example:x/p?q#f").map_err(|e| e.to_string())?;
    u.set_query(Some("%41")).map_err(|e| format!("set_query(%41): {e}"))?;
    let text = u.to_string();
    match DIDUrl::parse(&text) { Ok(v) if v == u => Ok(()), other => Err(format!("set_query(\"%41\") gives {text:?}, which re-parses to {:?}", other.map(|v| v.to_string()))) }
  });
  w("du_order_is_lexicographic_and_consistent_with_eq", || {
    let parts = [None, Some("a"), Some("b")];
    let mut all = vec![];
    for p in parts { for q in parts { for f in parts { all.push((p, q, f, rel(p.map(|x| format!("/{x}")).as_deref(), q, f))); } } }
    for (p1, q1, f1, a) in &all { for (p2, q2, f2, b) in &all {
      let want = (p1.unwrap_or(""), q1.unwrap_or(""), f1.unwrap_or("")).cmp(&(p2.unwrap_or(""), q2.unwrap_or(""), f2.unwrap_or("")));
      if a.cmp(b) != want { return Err(format!("{a:?} cmp {b:?} = {:?}, expected {want:?}", a.cmp(b))); }
      if (a == b) != (want == Ordering::Equal) { return Err(format!("{a:?} == {b:?} is {} but cmp says {want:?}", a == b)); }
      if a.partial_cmp(b) != Some(want) { return Err("partial_cmp disagrees with cmp".into()); }
    } }
    Ok(())
  });
  w("du_segment_validation", || {
    for (s, want) in [("/a", true), ("/a%41", true), ("/%41{", false), ("/%4", false), ("/%", false), ("/%4g", false), ("/%41%42", true), ("/a b", false), ("/~!$&'()*+,;=@/", true), ("/a?b", false), ("/\u{e9}", false), ("/%41\u{e9}", false), ("/%41 x", false), ("/x%41{", false)] {
      let mut r = RelativeDIDUrl::new();
      if r.set_path(Some(s)).is_ok() != want { return Err(format!("set_path({s:?}) accepted={}, expected={want}", !want)); }
    }
    for (s, want) in [("a=b", true), ("a%41", true), ("%41{", false), ("a?b/c", true), ("a#b", false), ("%zz", false), ("%41%4", false)] {
      let mut r = RelativeDIDUrl::new();
      if r.set_query(Some(s)).is_ok() != want { return Err(format!("set_query({s:?}) accepted={}, expected={want}", !want)); }
      let mut r = RelativeDIDUrl::new();
      if r.set_fragment(Some(s)).is_ok() != want { return Err(format!("set_fragment({s:?}) accepted={}, expected={want}", !want)); }
    }
    if DIDUrl::parse("did:example:abc/%41{").is_ok() { return Err("DIDUrl::parse accepts a path with '{' after a percent triple".into()); }
    Ok(())
  });
}
