// Concrete witnesses for the `did_url` unit (public API of identity_did).
use identity_did::{DIDUrl, RelativeDIDUrl};
use std::cmp::Ordering;
use std::panic::catch_unwind;
fn w(name: &str, f: impl FnOnce() -> Result<(), String> + std::panic::UnwindSafe) {
  match catch_unwind(f) {
    Ok(Ok(())) => println!("WITNESS {name} OK"),
    Ok(Err(e)) => println!("WITNESS {name} FAIL {e}"),
    Err(_) => println!("WITNESS {name} FAIL panicked"),
  }
}
fn rel(p: Option<&str>, q: Option<&str>, f: Option<&str>) -> RelativeDIDUrl {
  let mut r = RelativeDIDUrl::new();
  r.set_path(p).unwrap(); r.set_query(q).unwrap(); r.set_fragment(f).unwrap();
  r
}
fn main() {
  std::panic::set_hook(Box::new(|_| {}));
  w("du_order_is_lexicographic_and_consistent_with_eq", || {
    let parts = [None, Some("a"), Some("b")];
    let mut all = vec![];
    for p in parts { for q in parts { for f in parts { all.push((p, q, f, rel(p.map(|x| format!("/{x}")).as_deref(), q, f))); } } }
    for (p1, q1, f1, a) in &all { for (p2, q2, f2, b) in &all {
      let want = (p1.unwrap_or(""), q1.unwrap_or(""), f1.unwrap_or("")).cmp(&(p2.unwrap_or(""), q2.unwrap_or(""), f2.unwrap_or("")));
      if a.cmp(b) != want { return Err(format!("{a:?} cmp {b:?} = {:?}, expected {want:?}", a.cmp(b))); }
      if (a == b) != (want == Ordering::Equal) { return Err(format!("{a:?} == {b:?} is {} but cmp says {want:?}", a == b)); }
      if a.partial_cmp(b) != Some(want) { return Err("partial_cmp disagrees with cmp".into()); }
    } }
    Ok(())
  });
  w("du_segment_validation", || {
    for (s, want) in [("/a", true), ("/a%41", true), ("/%41{", false), ("/%4", false), ("/%", false), ("/%4g", false), ("/%41%42", true), ("/a b", false), ("/~!$&'()*+,;=@/", true), ("/a?b", false), ("/\u{e9}", false), ("/%41\u{e9}", false), ("/%41 x", false), ("/x%41{", false)] {
      let mut r = RelativeDIDUrl::new();
      if r.set_path(Some(s)).is_ok() != want { return Err(format!("set_path({s:?}) accepted={}, expected={want}", !want)); }
    }
    for (s, want) in [("a=b", true), ("a%41", true), ("%41{", false), ("a?b/c", true), ("a#b", false), ("%zz", false), ("%41%4", false)] {
      let mut r = RelativeDIDUrl::new();
      if r.set_query(Some(s)).is_ok() != want { return Err(format!("set_query({s:?}) accepted={}, expected={want}", !want)); }
      let mut r = RelativeDIDUrl::new();
      if r.set_fragment(Some(s)).is_ok() != want { return Err(format!("set_fragment({s:?}) accepted={}, expected={want}", !want)); }
    }
    if DIDUrl::parse("did:example:abc/%41{").is_ok() { return Err("DIDUrl::parse accepts a path with '{' after a percent triple".into()); }
    Ok(())
  });
}
