// Bounded Kani stand-in for is_valid_url_segment / is_valid_percent_encoded_char (char_indices, manual iterator stepping and
// str range indexing are outside the Verus front end): every ASCII string of the fixed length, against a byte-level oracle
// written independently of the code (position-by-position scan).  Labelled bounded: lengths 1..=5, ASCII only.
use super::*;

fn hex(b: u8) -> bool { (b'0'..=b'9').contains(&b) || (b'a'..=b'f').contains(&b) || (b'A'..=b'F').contains(&b) }
/// oracle: a '%' must be followed by two hex digits (the triple is then skipped); every other byte must satisfy the class
fn oracle(b: &[u8], class: fn(char) -> bool) -> bool {
  let mut i = 0;
  while i < b.len() {
    if b[i] == b'%' {
      if !(i + 2 < b.len() && hex(b[i + 1]) && hex(b[i + 2])) { return false; }
      i += 3;
    } else {
      if !class(b[i] as char) { return false; }
      i += 1;
    }
  }
  true
}
macro_rules! segment_harness { ($name:ident, $n:expr, $class:expr) => {
  #[kani::proof]
  #[kani::unwind(8)]
  fn $name() {
    let bytes: [u8; $n] = kani::any();
    for k in 0..$n { kani::assume(bytes[k] < 128); }
    let s = core::str::from_utf8(&bytes).unwrap();
    let got = is_valid_url_segment(s, $class);
    assert!(got == oracle(&bytes, $class));
    kani::cover!(got && bytes[0] == b'%', "an accepted percent triple");
  }
}}
/// same check over a representative alphabet (one character per class the scan distinguishes): lengths up to 6 stay cheap
macro_rules! alphabet_harness { ($name:ident, $n:expr, $class:expr) => {
  #[kani::proof]
  #[kani::unwind(9)]
  fn $name() {
    const ALPHABET: [u8; 8] = [b'%', b'4', b'a', b'F', b'g', b'{', b'/', b'?'];
    let idx: [u8; $n] = kani::any();
    let mut bytes = [0u8; $n];
    for k in 0..$n { kani::assume(idx[k] < 8); bytes[k] = ALPHABET[idx[k] as usize]; }
    let s = core::str::from_utf8(&bytes).unwrap();
    let got = is_valid_url_segment(s, $class);
    assert!(got == oracle(&bytes, $class));
    kani::cover!(got && bytes[0] == b'%', "an accepted percent triple");
  }
}}
alphabet_harness!(seg_alpha_path_len4, 4, is_char_path);
alphabet_harness!(seg_alpha_path_len5, 5, is_char_path);
alphabet_harness!(seg_alpha_path_len6, 6, is_char_path);
alphabet_harness!(seg_alpha_query_len5, 5, is_char_query);
segment_harness!(seg_path_len3, 3, is_char_path);
segment_harness!(seg_path_len4, 4, is_char_path);
segment_harness!(seg_path_len5, 5, is_char_path);
segment_harness!(seg_query_len4, 4, is_char_query);
segment_harness!(seg_fragment_len4, 4, is_char_fragment);
