// Concrete witnesses for the `ecdsa_verifier` unit: the real EcDSAJwsVerifier / Secp256R1Verifier / Secp256K1Verifier.
use identity_ecdsa_verifier::{EcDSAJwsVerifier, Secp256K1Verifier, Secp256R1Verifier};
use identity_verification::jwk::{Jwk, JwkParamsEc};
use identity_verification::jws::{JwsAlgorithm, JwsVerifier, VerificationInput};
use identity_verification::jwu;

fn ec_jwk(crv: &str, x: &[u8], y: &[u8]) -> Jwk {
  let mut p = JwkParamsEc::new();
  p.crv = crv.into(); p.x = jwu::encode_b64(x); p.y = jwu::encode_b64(y);
  Jwk::from_params(p)
}
fn input(alg: JwsAlgorithm, msg: &[u8], sig: &[u8]) -> VerificationInput {
  VerificationInput { alg, signing_input: msg.to_vec().into_boxed_slice(), decoded_signature: sig.to_vec().into_boxed_slice() }
}
/// deterministic key material: secret scalar = 32 bytes derived from a counter
fn scalar(n: u8) -> [u8; 32] { let mut b = [0x11u8; 32]; b[31] = n; b[0] = 0x01; b }

fn p256_pair(n: u8) -> (p256::ecdsa::SigningKey, Jwk) {
  let sk = p256::SecretKey::from_slice(&scalar(n)).unwrap();
  let pt = p256::elliptic_curve::sec1::ToEncodedPoint::to_encoded_point(&sk.public_key(), false);
  (p256::ecdsa::SigningKey::from(sk), ec_jwk("P-256", pt.x().unwrap(), pt.y().unwrap()))
}
fn k256_pair(n: u8) -> (k256::ecdsa::SigningKey, Jwk) {
  let sk = k256::SecretKey::from_slice(&scalar(n)).unwrap();
  let pt = k256::elliptic_curve::sec1::ToEncodedPoint::to_encoded_point(&sk.public_key(), false);
  (k256::ecdsa::SigningKey::from(sk), ec_jwk("secp256k1", pt.x().unwrap(), pt.y().unwrap()))
}

fn bound_exactly_as_received() -> Result<(), String> {
  let msgs: [&[u8]; 3] = [b"", b"header.payload", &[0xffu8; 200]];
  for n in 1..4u8 {
    let (sk_r, jwk_r) = p256_pair(n);
    let (sk_k, jwk_k) = k256_pair(n);
    let (_, other_r) = p256_pair(n + 10);
    let (_, other_k) = k256_pair(n + 10);
    for msg in msgs {
      let sig_r: p256::ecdsa::Signature = signature::Signer::sign(&sk_r, msg);
      let sig_k: k256::ecdsa::Signature = signature::Signer::sign(&sk_k, msg);
      let (sr, skb) = (sig_r.to_bytes().to_vec(), sig_k.to_bytes().to_vec());
      // the direct verifiers and the dispatching verifier accept the genuine triple
      Secp256R1Verifier::verify(&input(JwsAlgorithm::ES256, msg, &sr), &jwk_r).map_err(|e| format!("ES256 genuine refused: {e}"))?;
      Secp256K1Verifier::verify(&input(JwsAlgorithm::ES256K, msg, &skb), &jwk_k).map_err(|e| format!("ES256K genuine refused: {e}"))?;
      EcDSAJwsVerifier::default().verify(input(JwsAlgorithm::ES256, msg, &sr), &jwk_r).map_err(|e| format!("dispatch ES256: {e}"))?;
      EcDSAJwsVerifier::default().verify(input(JwsAlgorithm::ES256K, msg, &skb), &jwk_k).map_err(|e| format!("dispatch ES256K: {e}"))?;
      // any other message, key, or signature byte string is refused
      let mut m2 = msg.to_vec(); m2.push(b'x');
      for (what, ok) in [
        ("other message R1", Secp256R1Verifier::verify(&input(JwsAlgorithm::ES256, &m2, &sr), &jwk_r).is_ok()),
        ("other message K1", Secp256K1Verifier::verify(&input(JwsAlgorithm::ES256K, &m2, &skb), &jwk_k).is_ok()),
        ("other key R1", Secp256R1Verifier::verify(&input(JwsAlgorithm::ES256, msg, &sr), &other_r).is_ok()),
        ("other key K1", Secp256K1Verifier::verify(&input(JwsAlgorithm::ES256K, msg, &skb), &other_k).is_ok()),
        ("truncated signature R1", Secp256R1Verifier::verify(&input(JwsAlgorithm::ES256, msg, &sr[..63]), &jwk_r).is_ok()),
        ("extended signature K1", Secp256K1Verifier::verify(&input(JwsAlgorithm::ES256K, msg, &[&skb[..], &[0u8]].concat()), &jwk_k).is_ok()),
        ("empty signature", Secp256R1Verifier::verify(&input(JwsAlgorithm::ES256, msg, &[]), &jwk_r).is_ok()),
        ("R1 signature under K1 verifier", Secp256K1Verifier::verify(&input(JwsAlgorithm::ES256K, msg, &sr), &jwk_k).is_ok()),
      ] { if ok { return Err(format!("key {n}, {} byte message: accepted with {what}", msg.len())); } }
      for i in [0usize, 31, 32, 63] {
        let mut bad = sr.clone(); bad[i] ^= 0x01;
        if Secp256R1Verifier::verify(&input(JwsAlgorithm::ES256, msg, &bad), &jwk_r).is_ok() { return Err(format!("ES256: signature with byte {i} flipped accepted")); }
        let mut bad = skb.clone(); bad[i] ^= 0x01;
        if Secp256K1Verifier::verify(&input(JwsAlgorithm::ES256K, msg, &bad), &jwk_k).is_ok() { return Err(format!("ES256K: signature with byte {i} flipped accepted")); }
      }
      // swapped coordinates are another (or no) point
      let p = jwk_r.try_ec_params().unwrap();
      let swapped = ec_jwk("P-256", &jwu::decode_b64(&p.y).unwrap(), &jwu::decode_b64(&p.x).unwrap());
      if Secp256R1Verifier::verify(&input(JwsAlgorithm::ES256, msg, &sr), &swapped).is_ok() { return Err("ES256: key with x and y swapped accepted".into()); }
    }
  }
  Ok(())
}

fn dispatch_and_key_type() -> Result<(), String> {
  let (sk_r, jwk_r) = p256_pair(7);
  let (sk_k, jwk_k) = k256_pair(7);
  let msg = b"signing input";
  let sr: p256::ecdsa::Signature = signature::Signer::sign(&sk_r, &msg[..]);
  let skb: k256::ecdsa::Signature = signature::Signer::sign(&sk_k, &msg[..]);
  let v = EcDSAJwsVerifier::default();
  // the algorithm decides the curve: a P-256 triple offered as ES256K (and vice versa) is refused, other algorithms too
  if v.verify(input(JwsAlgorithm::ES256K, msg, &sr.to_bytes()), &jwk_r).is_ok() { return Err("P-256 triple accepted as ES256K".into()); }
  if v.verify(input(JwsAlgorithm::ES256, msg, &skb.to_bytes()), &jwk_k).is_ok() { return Err("secp256k1 triple accepted as ES256".into()); }
  for alg in [JwsAlgorithm::EdDSA, JwsAlgorithm::ES384, JwsAlgorithm::ES512, JwsAlgorithm::HS256, JwsAlgorithm::NONE, JwsAlgorithm::RS256] {
    if v.verify(input(alg, msg, &sr.to_bytes()), &jwk_r).is_ok() { return Err(format!("alg {alg} accepted by the ECDSA verifier")); }
  }
  // not an EC key / undecodable coordinates / not a point
  let mut okp = identity_verification::jwk::JwkParamsOkp::new(); okp.crv = "Ed25519".into(); okp.x = jwk_r.try_ec_params().unwrap().x.clone();
  if v.verify(input(JwsAlgorithm::ES256, msg, &sr.to_bytes()), &Jwk::from_params(okp)).is_ok() { return Err("OKP key accepted".into()); }
  let mut p = jwk_r.try_ec_params().unwrap().clone(); p.x = "%%%".into();
  if v.verify(input(JwsAlgorithm::ES256, msg, &sr.to_bytes()), &Jwk::from_params(p)).is_ok() { return Err("undecodable x accepted".into()); }
  if v.verify(input(JwsAlgorithm::ES256, msg, &sr.to_bytes()), &ec_jwk("P-256", &[1u8; 32], &[2u8; 32])).is_ok() { return Err("off-curve point accepted".into()); }
  Ok(())
}

/// D12: coordinates that do not add up to 64 bytes must be refused - the pinned tree panicked inside GenericArray::from_iter
fn wrong_length_coordinates_are_refused() -> Result<(), String> {
  let (sk_r, _) = p256_pair(3);
  let (sk_k, _) = k256_pair(3);
  let msg = b"signing input";
  let sr: p256::ecdsa::Signature = signature::Signer::sign(&sk_r, &msg[..]);
  let skb: k256::ecdsa::Signature = signature::Signer::sign(&sk_k, &msg[..]);
  for (lx, ly) in [(31usize, 32usize), (32, 31), (0, 0), (0, 64), (33, 32), (32, 33), (64, 64), (1, 1)] {
    let (x, y) = (vec![1u8; lx], vec![2u8; ly]);
    for (alg, crv, sig) in [(JwsAlgorithm::ES256, "P-256", sr.to_bytes().to_vec()), (JwsAlgorithm::ES256K, "secp256k1", skb.to_bytes().to_vec())] {
      let jwk = ec_jwk(crv, &x, &y);
      let inp = input(alg, msg, &sig);
      let r = std::panic::catch_unwind(move || EcDSAJwsVerifier::default().verify(inp, &jwk).is_ok());
      match r {
        Err(_) => return Err(format!("{crv} key with x of {lx} and y of {ly} bytes: the verifier PANICS")),
        Ok(true) => return Err(format!("{crv} key with x of {lx} and y of {ly} bytes accepted")),
        Ok(false) => {}
      }
    }
  }
  Ok(())
}

fn w(name: &str, r: Result<(), String>) { match r { Ok(()) => println!("WITNESS {name} OK"), Err(e) => println!("WITNESS {name} FAIL {e}") } }

fn main() {
  w("ec_signature_is_bound_exactly_as_received", bound_exactly_as_received());
  w("ec_dispatch_and_key_type", dispatch_and_key_type());
  std::panic::set_hook(Box::new(|_| {}));
  w("ec_wrong_length_coordinates_are_refused", wrong_length_coordinates_are_refused());
}
