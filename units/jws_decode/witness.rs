// Concrete witnesses for the `jws_decode` unit, run against the real crate (public API only).
// The verifier accepts everything, so only the decoder/verify logic decides.
use identity_jose::jwk::{Jwk, JwkParamsOct};
use identity_jose::jws::{Decoder, JwsVerifierFn, VerificationInput};
use identity_jose::jwu;
use std::panic::catch_unwind;

fn w(name: &str, f: impl FnOnce() -> Result<(), String> + std::panic::UnwindSafe) {
  match catch_unwind(f) {
    Ok(Ok(())) => println!("WITNESS {name} OK"),
    Ok(Err(e)) => println!("WITNESS {name} FAIL {e}"),
    Err(_) => println!("WITNESS {name} FAIL panicked"),
  }
}
fn key(alg: Option<&str>) -> Jwk {
  let mut k = Jwk::from_params(JwkParamsOct { k: "AAAA".into() });
  if let Some(a) = alg { k.set_alg(a); }
  k
}
fn b64(s: &str) -> String { jwu::encode_b64(s.as_bytes()) }

fn main() {
  std::panic::set_hook(Box::new(|_| {}));
  let accept_all = || JwsVerifierFn::from(|_input: VerificationInput, _key: &Jwk| Ok(()));

  w("jd_alg_only_in_unprotected_header", || {
    let jws = format!(r#"{{"payload":"{}","protected":"{}","header":{{"alg":"EdDSA"}},"signature":"{}"}}"#, b64("{}"), b64(r#"{"kid":"k"}"#), b64("sig"));
    let item = Decoder::new().decode_flattened_serialization(jws.as_bytes(), None).map_err(|e| format!("decode: {e}"))?;
    match item.verify(&accept_all(), &key(None)) { Err(_) => Ok(()), Ok(_) => Err("verified with alg taken from the unprotected header".into()) }
  });
  w("jd_key_alg_pin_mismatch", || {
    for pin in ["ES256", "ECDH-ES", "eddsa", "Ed25519", ""] {
      let jws = format!("{}.{}.{}", b64(r#"{"alg":"EdDSA"}"#), b64("{}"), b64("sig"));
      let item = Decoder::new().decode_compact_serialization(jws.as_bytes(), None).map_err(|e| format!("decode: {e}"))?;
      if item.verify(&accept_all(), &key(Some(pin))).is_ok() { return Err(format!("verified although the key is pinned to alg {pin:?} and the header says EdDSA")); }
    }
    let jws = format!("{}.{}.{}", b64(r#"{"alg":"EdDSA"}"#), b64("{}"), b64("sig"));
    let item = Decoder::new().decode_compact_serialization(jws.as_bytes(), None).map_err(|e| format!("decode: {e}"))?;
    item.verify(&accept_all(), &key(Some("EdDSA"))).map(|_| ()).map_err(|e| format!("matching pin rejected: {e}"))
  });
  w("jd_attached_and_detached_payload", || {
    let jws = format!("{}.{}.{}", b64(r#"{"alg":"EdDSA"}"#), b64("{}"), b64("sig"));
    if Decoder::new().decode_compact_serialization(jws.as_bytes(), Some(b"other")).is_ok() { return Err("compact: attached + detached payload accepted".into()); }
    let f = format!(r#"{{"payload":"{}","protected":"{}","signature":"{}"}}"#, b64("{}"), b64(r#"{"alg":"EdDSA"}"#), b64("sig"));
    if Decoder::new().decode_flattened_serialization(f.as_bytes(), Some(b"other")).is_ok() { return Err("flattened: attached + detached payload accepted".into()); }
    Ok(())
  });
  w("jd_signing_input_is_received_bytes", || {
    // a protected header with unusual JSON spacing: the signing input must reuse the received segment verbatim
    let p = b64("{ \"alg\" : \"EdDSA\" ,\"kid\":\"x\" }");
    let pl = b64("{\"a\": 1}");
    let jws = format!("{p}.{pl}.{}", b64("sig"));
    let item = Decoder::new().decode_compact_serialization(jws.as_bytes(), None).map_err(|e| format!("decode: {e}"))?;
    if item.signing_input() != format!("{p}.{pl}").as_bytes() { return Err("signing input is not protected + '.' + payload as received".into()); }
    if item.claims() != b"{\"a\": 1}" { return Err("claims are not the decoded payload".into()); }
    if item.decoded_signature() != b"sig" { return Err("signature bytes differ".into()); }
    // detached, b64 = false
    let p2 = b64(r#"{"alg":"EdDSA","b64":false,"crit":["b64"]}"#);
    let jws2 = format!("{p2}..{}", b64("sig"));
    let item = Decoder::new().decode_compact_serialization(jws2.as_bytes(), Some(b"raw payload")).map_err(|e| format!("decode detached: {e}"))?;
    if item.signing_input() != [p2.as_bytes(), b".", b"raw payload"].concat() { return Err("detached/b64=false: wrong signing input".into()); }
    if item.claims() != b"raw payload" { return Err("detached/b64=false: claims are not the raw payload".into()); }
    // b64 is read from the PROTECTED header only: an unprotected header must not switch the payload decoding back on
    let f = format!(r#"{{"payload":"dGVzdA","protected":"{p2}","header":{{"kid":"k"}},"signature":"{}"}}"#, b64("sig"));
    let item = Decoder::new().decode_flattened_serialization(f.as_bytes(), None).map_err(|e| format!("decode flattened b64=false with unprotected header: {e}"))?;
    if item.claims() != b"dGVzdA" { return Err(format!("b64=false in the protected header + an unprotected header: claims are {:?}, not the raw payload", String::from_utf8_lossy(item.claims()))); }
    if item.signing_input() != [p2.as_bytes(), b".", b"dGVzdA"].concat() { return Err("b64=false + unprotected header: wrong signing input".into()); }
    Ok(())
  });
}
