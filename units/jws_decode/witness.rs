// Concrete witnesses for the `jws_decode` unit, run against the real crate (public API only).
// The verifier accepts everything, so only the decoder/verify logic decides.
use identity_jose::jwk::{Jwk, JwkParamsOct};
use identity_jose::jws::{Decoder, JwsVerifierFn, VerificationInput};
use identity_jose::jwu;
use std::panic::catch_unwind;

fn w(name: &str, f: impl FnOnce() -> Result<(), String> + std::panic::UnwindSafe) {
  match catch_unwind(f) {
    Ok(Ok(())) => println!("WITNESS {name} OK"),
    Ok(Err(e)) => println!("WITNESS {name} FAIL {e}"),
    Err(_) => println!("WITNESS {name} FAIL panicked"),
  }
}
fn key(alg: Option<&str>) -> Jwk {
  let mut k = Jwk::from_params(JwkParamsOct { k: "AAAA".into() });
  if let Some(a) = alg { k.set_alg(a); }
  k
}
fn b64(s: &str) -> String { jwu::encode_b64(s.as_bytes()) }

/// C05, bounded exhaustive: every string of up to 6 characters over an alphabet of base64url characters, separators, padding and
/// junk, and every combination of a pool of crafted segments, through the three decoders: an error or a value, never a panic;
/// an accepted compact token has exactly three segments and its parts are the decoded segments
fn junk_never_panics_small_scope() -> Result<(), String> {
  let alphabet = ['.', 'e', 'y', 'J', '0', '=', '-', '_', ' ', '{'];
  let mut cur: Vec<usize> = vec![];
  let mut n = 0u32;
  loop {
    let mut k = cur.len();
    loop {
      if k == 0 { cur = vec![0; cur.len() + 1]; break; }
      k -= 1;
      if cur[k] + 1 < alphabet.len() { cur[k] += 1; for j in k + 1..cur.len() { cur[j] = 0; } break; }
    }
    if cur.len() > 6 { break; }
    let text: String = cur.iter().map(|&i| alphabet[i]).collect();
    n += 1;
    let t = text.clone();
    let ok = catch_unwind(move || {
      let d = Decoder::new();
      let a = d.decode_compact_serialization(t.as_bytes(), None).is_ok();
      let b = d.decode_compact_serialization(t.as_bytes(), Some(b"e30")).is_ok();
      (a, b)
    }).map_err(|_| format!("decode_compact_serialization({text:?}) PANICS"))?;
    if (ok.0 || ok.1) && text.matches('.').count() != 2 { return Err(format!("compact token {text:?} accepted with {} separators", text.matches('.').count())); }
  }
  if n < 1_000_000 { return Err(format!("only {n} strings")); }
  // crafted segments: every (protected, payload, signature) combination, attached and detached, compact / flattened / general
  let headers = [b64(r#"{"alg":"EdDSA"}"#), b64(r#"{"alg":"EdDSA","b64":false,"crit":["b64"]}"#), b64(r#"{"alg":"EdDSA","crit":["exp"]}"#), b64(r#"{"alg":"EdDSA","crit":[]}"#),
    b64(r#"{"alg":"none"}"#), b64(r#"{}"#), b64(r#"[]"#), b64("not json"), b64(r#"{"alg":5}"#), b64(r#"{"alg":"EdDSA","kid":7}"#), "%%%".to_owned(), String::new(), b64(r#"{"alg":"EdDSA","b64":"no"}"#), b64("\u{0}")];
  let payloads = [b64("{}"), "raw.payload".to_owned(), String::new(), "%%".to_owned(), b64("\u{ff}\u{fe}"), "e30=".to_owned()];
  let signatures = [b64("sig"), String::new(), "!".to_owned(), "e30=".to_owned()];
  let mut m = 0u32;
  for h in &headers { for p in &payloads { for sg in &signatures { for detached in [None, Some(&b"e30"[..]), Some(&b""[..]), Some(&b"raw payload"[..])] {
    let compact = format!("{h}.{p}.{sg}");
    let flattened = format!(r#"{{"payload":"{p}","protected":"{h}","signature":"{sg}"}}"#);
    let flattened_unprot = format!(r#"{{"payload":"{p}","protected":"{h}","header":{{"kid":"k"}},"signature":"{sg}"}}"#);
    let general = format!(r#"{{"payload":"{p}","signatures":[{{"protected":"{h}","signature":"{sg}"}},{{"header":{{"alg":"EdDSA"}},"signature":"{sg}"}}]}}"#);
    let general_empty = format!(r#"{{"payload":"{p}","signatures":[]}}"#);
    m += 1;
    let what = format!("header {h:?} payload {p:?} signature {sg:?} detached {detached:?}");
    let det = detached.map(|d| d.to_vec());
    catch_unwind(move || {
      let d = Decoder::new();
      let det = det.as_deref();
      for item in [d.decode_compact_serialization(compact.as_bytes(), det), d.decode_flattened_serialization(flattened.as_bytes(), det), d.decode_flattened_serialization(flattened_unprot.as_bytes(), det)] {
        if let Ok(item) = item {
          // every accessor of an accepted item, and verification with an accepting and a refusing verifier
          let _ = (item.alg(), item.kid().map(str::len), item.nonce().map(str::len), item.claims().len(), item.signing_input().len(), item.decoded_signature().len(), item.protected_header().is_some(), item.unprotected_header().is_some());
          let accept = JwsVerifierFn::from(|_i: VerificationInput, _k: &Jwk| Ok(()));
          let _ = item.verify(&accept, &key(None)).map(|d| d.claims.len());
        }
      }
      for doc in [general.as_bytes(), general_empty.as_bytes()] {
        if let Ok(iter) = d.decode_general_serialization(doc, det) { for item in iter { if let Ok(item) = item { let _ = (item.alg(), item.claims().len(), item.signing_input().len()); } } }
      }
    }).map_err(|_| format!("a decoder or an accessor PANICS for {what}"))?;
  } } } }
  if m < 1000 { return Err(format!("only {m} combinations")); }
  Ok(())
}

fn main() {
  std::panic::set_hook(Box::new(|_| {}));
  w("jd_junk_never_panics_small_scope", junk_never_panics_small_scope);
  let accept_all = || JwsVerifierFn::from(|_input: VerificationInput, _key: &Jwk| Ok(()));

  w("jd_alg_only_in_unprotected_header", || {
    let jws = format!(r#"{{"payload":"{}","protected":"{}","header":{{"alg":"EdDSA"}},"signature":"{}"}}"#, b64("{}"), b64(r#"{"kid":"k"}"#), b64("sig"));
    let item = Decoder::new().decode_flattened_serialization(jws.as_bytes(), None).map_err(|e| format!("decode: {e}"))?;
    match item.verify(&accept_all(), &key(None)) { Err(_) => Ok(()), Ok(_) => Err("verified with alg taken from the unprotected header".into()) }
  });
  w("jd_key_alg_pin_mismatch", || {
    for pin in ["ES256", "ECDH-ES", "eddsa", "Ed25519", ""] {
      let jws = format!("{}.{}.{}", b64(r#"{"alg":"EdDSA"}"#), b64("{}"), b64("sig"));
      let item = Decoder::new().decode_compact_serialization(jws.as_bytes(), None).map_err(|e| format!("decode: {e}"))?;
      if item.verify(&accept_all(), &key(Some(pin))).is_ok() { return Err(format!("verified although the key is pinned to alg {pin:?} and the header says EdDSA")); }
    }
    let jws = format!("{}.{}.{}", b64(r#"{"alg":"EdDSA"}"#), b64("{}"), b64("sig"));
    let item = Decoder::new().decode_compact_serialization(jws.as_bytes(), None).map_err(|e| format!("decode: {e}"))?;
    item.verify(&accept_all(), &key(Some("EdDSA"))).map(|_| ()).map_err(|e| format!("matching pin rejected: {e}"))
  });
  w("jd_attached_and_detached_payload", || {
    let jws = format!("{}.{}.{}", b64(r#"{"alg":"EdDSA"}"#), b64("{}"), b64("sig"));
    for detached in [&b"other"[..], &b"e30"[..], &b""[..]] {
      if Decoder::new().decode_compact_serialization(jws.as_bytes(), Some(detached)).is_ok() { return Err(format!("compact: attached + detached payload {:?} accepted", String::from_utf8_lossy(detached))); }
    }
    // anything after the third segment makes it another token: never ignored
    for tail in [".", ".x", ".e30", ".a.b", ".."] {
      let t = format!("{jws}{tail}");
      if Decoder::new().decode_compact_serialization(t.as_bytes(), None).is_ok() { return Err(format!("compact: token followed by {tail:?} accepted")); }
    }
    let detached_form = format!("{}..{}", b64(r#"{"alg":"EdDSA"}"#), b64("sig"));
    if Decoder::new().decode_compact_serialization(detached_form.as_bytes(), Some(b"e30")).is_err() { return Err("compact: detached form with a detached payload refused".into()); }
    if Decoder::new().decode_compact_serialization(detached_form.as_bytes(), None).is_ok() { return Err("compact: empty payload segment without a detached payload accepted".into()); }
    let f = format!(r#"{{"payload":"{}","protected":"{}","signature":"{}"}}"#, b64("{}"), b64(r#"{"alg":"EdDSA"}"#), b64("sig"));
    if Decoder::new().decode_flattened_serialization(f.as_bytes(), Some(b"other")).is_ok() { return Err("flattened: attached + detached payload accepted".into()); }
    Ok(())
  });
  w("jd_signing_input_is_received_bytes", || {
    // a protected header with unusual JSON spacing: the signing input must reuse the received segment verbatim
    let p = b64("{ \"alg\" : \"EdDSA\" ,\"kid\":\"x\" }");
    let pl = b64("{\"a\": 1}");
    let jws = format!("{p}.{pl}.{}", b64("sig"));
    let item = Decoder::new().decode_compact_serialization(jws.as_bytes(), None).map_err(|e| format!("decode: {e}"))?;
    if item.signing_input() != format!("{p}.{pl}").as_bytes() { return Err("signing input is not protected + '.' + payload as received".into()); }
    if item.claims() != b"{\"a\": 1}" { return Err("claims are not the decoded payload".into()); }
    if item.decoded_signature() != b"sig" { return Err("signature bytes differ".into()); }
    // detached, b64 = false
    let p2 = b64(r#"{"alg":"EdDSA","b64":false,"crit":["b64"]}"#);
    let jws2 = format!("{p2}..{}", b64("sig"));
    let item = Decoder::new().decode_compact_serialization(jws2.as_bytes(), Some(b"raw payload")).map_err(|e| format!("decode detached: {e}"))?;
    if item.signing_input() != [p2.as_bytes(), b".", b"raw payload"].concat() { return Err("detached/b64=false: wrong signing input".into()); }
    if item.claims() != b"raw payload" { return Err("detached/b64=false: claims are not the raw payload".into()); }
    // b64 is read from the PROTECTED header only: an unprotected header must not switch the payload decoding back on
    let f = format!(r#"{{"payload":"dGVzdA","protected":"{p2}","header":{{"kid":"k"}},"signature":"{}"}}"#, b64("sig"));
    let item = Decoder::new().decode_flattened_serialization(f.as_bytes(), None).map_err(|e| format!("decode flattened b64=false with unprotected header: {e}"))?;
    if item.claims() != b"dGVzdA" { return Err(format!("b64=false in the protected header + an unprotected header: claims are {:?}, not the raw payload", String::from_utf8_lossy(item.claims()))); }
    if item.signing_input() != [p2.as_bytes(), b".", b"dGVzdA"].concat() { return Err("b64=false + unprotected header: wrong signing input".into()); }
    Ok(())
  });
}
