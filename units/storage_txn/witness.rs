// Concrete witnesses for the `storage_txn` unit: JwkDocumentExt::{generate_method, purge_method} of the real crate over
// fault-injecting wrappers of the in-memory stores; the n-th storage call (counted across both stores) fails.
use async_trait::async_trait;
use identity_core::convert::{FromJson, ToJson};
use identity_document::document::CoreDocument;
use identity_storage::key_id_storage::{KeyIdMemstore, KeyIdStorage, KeyIdStorageError, KeyIdStorageErrorKind, KeyIdStorageResult, MethodDigest};
use identity_storage::key_storage::{JwkGenOutput, JwkMemStore, JwkStorage, KeyId, KeyStorageError, KeyStorageErrorKind, KeyStorageResult, KeyType};
use identity_storage::storage::{JwkDocumentExt, JwkStorageDocumentError, Storage};
use identity_verification::jose::jwk::Jwk;
use identity_verification::jose::jws::JwsAlgorithm;
use identity_verification::{MethodRelationship, MethodScope};
use std::cell::Cell;
use std::rc::Rc;

/// shared fault plan: call number k (1-based, counted over both stores) fails iff bit k-1 of the mask is set; 0 = never
#[derive(Clone)]
struct Plan { next: Rc<Cell<u32>>, fail_at: Rc<Cell<u32>>, calls: Rc<Cell<u32>> }
impl Plan {
  fn new() -> Self { Plan { next: Rc::new(Cell::new(0)), fail_at: Rc::new(Cell::new(0)), calls: Rc::new(Cell::new(0)) } }
  fn arm(&self, n: u32) { self.next.set(0); self.fail_at.set(n); }
  fn hit(&self) -> bool { self.next.set(self.next.get() + 1); self.calls.set(self.next.get()); let k = self.next.get(); k <= 32 && (self.fail_at.get() >> (k - 1)) & 1 == 1 }
}
struct FaultyKeys { inner: JwkMemStore, plan: Plan }
struct FaultyIds { inner: KeyIdMemstore, plan: Plan }
#[async_trait(?Send)]
impl JwkStorage for FaultyKeys {
  async fn generate(&self, key_type: KeyType, alg: JwsAlgorithm) -> KeyStorageResult<JwkGenOutput> {
    if self.plan.hit() { return Err(KeyStorageError::new(KeyStorageErrorKind::Unavailable)); }
    self.inner.generate(key_type, alg).await
  }
  async fn insert(&self, jwk: Jwk) -> KeyStorageResult<KeyId> { self.inner.insert(jwk).await }
  async fn sign(&self, key_id: &KeyId, data: &[u8], public_key: &Jwk) -> KeyStorageResult<Vec<u8>> { self.inner.sign(key_id, data, public_key).await }
  async fn delete(&self, key_id: &KeyId) -> KeyStorageResult<()> {
    if self.plan.hit() { return Err(KeyStorageError::new(KeyStorageErrorKind::Unavailable)); }
    self.inner.delete(key_id).await
  }
  async fn exists(&self, key_id: &KeyId) -> KeyStorageResult<bool> {
    // (not called by generate / purge on the pinned tree; faulted like every other call when a plan is armed)
    if self.plan.fail_at.get() != 0 && self.plan.hit() { return Err(KeyStorageError::new(KeyStorageErrorKind::Unavailable)); }
    self.inner.exists(key_id).await
  }
}
#[async_trait(?Send)]
impl KeyIdStorage for FaultyIds {
  async fn insert_key_id(&self, d: MethodDigest, k: KeyId) -> KeyIdStorageResult<()> {
    if self.plan.hit() { return Err(KeyIdStorageError::new(KeyIdStorageErrorKind::Unavailable)); }
    self.inner.insert_key_id(d, k).await
  }
  async fn get_key_id(&self, d: &MethodDigest) -> KeyIdStorageResult<KeyId> {
    if self.plan.hit() { return Err(KeyIdStorageError::new(KeyIdStorageErrorKind::Unavailable)); }
    self.inner.get_key_id(d).await
  }
  async fn delete_key_id(&self, d: &MethodDigest) -> KeyIdStorageResult<()> {
    if self.plan.hit() { return Err(KeyIdStorageError::new(KeyIdStorageErrorKind::Unavailable)); }
    self.inner.delete_key_id(d).await
  }
}
type St = Storage<FaultyKeys, FaultyIds>;
fn storage(plan: &Plan) -> St { Storage::new(FaultyKeys { inner: JwkMemStore::new(), plan: plan.clone() }, FaultyIds { inner: KeyIdMemstore::new(), plan: plan.clone() }) }
fn doc() -> CoreDocument { CoreDocument::from_json(r#"{"id":"did:example:abc"}"#).unwrap() }
fn scopes() -> Vec<MethodScope> {
  vec![MethodScope::VerificationMethod, MethodScope::authentication(), MethodScope::assertion_method(), MethodScope::key_agreement(), MethodScope::capability_delegation(), MethodScope::capability_invocation()]
}
async fn keys_count(s: &St) -> usize { s.key_storage().inner.count().await }
async fn ids_count(s: &St) -> usize { s.key_id_storage().inner.count().await }
fn is_undo_failed(e: &JwkStorageDocumentError) -> bool { matches!(e, JwkStorageDocumentError::UndoOperationFailed { .. }) }

async fn generate_all_or_nothing() -> Result<(), String> {
  for scope in scopes() {
    for fail_at in 0..32u32 {
      let plan = Plan::new(); let s = storage(&plan); let mut d = doc();
      // one method already present, so "unchanged" is not trivially "empty"
      d.generate_method(&s, JwkMemStore::ED25519_KEY_TYPE, JwsAlgorithm::EdDSA, Some("first"), MethodScope::VerificationMethod).await.map_err(|e| format!("setup: {e}"))?;
      let (before, k0, i0) = (d.to_json().unwrap(), keys_count(&s).await, ids_count(&s).await);
      plan.arm(fail_at);
      let r = d.generate_method(&s, JwkMemStore::ED25519_KEY_TYPE, JwsAlgorithm::EdDSA, Some("second"), scope).await;
      plan.arm(0);
      let (after, k1, i1) = (d.to_json().unwrap(), keys_count(&s).await, ids_count(&s).await);
      match r {
        Ok(frag) => {
          if k1 != k0 + 1 || i1 != i0 + 1 { return Err(format!("generate {scope:?} fail_at={fail_at}: Ok but keys {k0}->{k1}, key ids {i0}->{i1}")); }
          let m = d.resolve_method(frag.as_str(), Some(scope)).ok_or(format!("generate {scope:?}: method does not resolve in its scope"))?.clone();
          let kid = s.key_id_storage().get_key_id(&MethodDigest::new(&m).unwrap()).await.map_err(|e| format!("generate {scope:?}: key id not recorded: {e}"))?;
          if !s.key_storage().exists(&kid).await.unwrap_or(false) { return Err(format!("generate {scope:?}: recorded key id has no key")); }
        }
        Err(e) if is_undo_failed(&e) => {}
        Err(e) => {
          if after != before || k1 != k0 || i1 != i0 { return Err(format!("generate {scope:?} fail_at={fail_at}: plain error {e} but document changed={} keys {k0}->{k1} key ids {i0}->{i1}", after != before)); }
        }
      }
    }
  }
  Ok(())
}
async fn purge_all_or_nothing(with_reference: bool) -> Result<(), String> {
  for scope in scopes() {
    if with_reference && scope != MethodScope::VerificationMethod { continue; }
    for fail_at in 0..32u32 {
      let plan = Plan::new(); let s = storage(&plan); let mut d = doc();
      d.generate_method(&s, JwkMemStore::ED25519_KEY_TYPE, JwsAlgorithm::EdDSA, Some("keep"), MethodScope::VerificationMethod).await.map_err(|e| format!("setup: {e}"))?;
      let frag = d.generate_method(&s, JwkMemStore::ED25519_KEY_TYPE, JwsAlgorithm::EdDSA, Some("target"), scope).await.map_err(|e| format!("setup: {e}"))?;
      let id = d.resolve_method(frag.as_str(), None).unwrap().id().clone();
      if with_reference {
        d.attach_method_relationship(&id, MethodRelationship::Authentication).map_err(|e| format!("setup attach: {e}"))?;
        d.attach_method_relationship(&id, MethodRelationship::AssertionMethod).map_err(|e| format!("setup attach: {e}"))?;
      }
      let (before, k0, i0) = (d.to_json().unwrap(), keys_count(&s).await, ids_count(&s).await);
      plan.arm(fail_at);
      let r = d.purge_method(&s, &id).await;
      plan.arm(0);
      let (after, k1, i1) = (d.to_json().unwrap(), keys_count(&s).await, ids_count(&s).await);
      match r {
        Ok(()) => {
          if d.resolve_method(&id, None).is_some() || k1 + 1 != k0 || i1 + 1 != i0 { return Err(format!("purge {scope:?} fail_at={fail_at}: Ok but method resolves={} keys {k0}->{k1} key ids {i0}->{i1}", d.resolve_method(&id, None).is_some())); }
          if after.contains("#target") { return Err(format!("purge {scope:?}: Ok but the document still mentions the method: {after}")); }
        }
        Err(e) if is_undo_failed(&e) => {}
        Err(e) => {
          if after != before || k1 != k0 || i1 != i0 {
            return Err(format!("purge {scope:?} refs={with_reference} fail_at={fail_at}: plain error \"{e}\" but document changed={} keys {k0}->{k1} key ids {i0}->{i1}; before={before} after={after}", after != before));
          }
        }
      }
    }
  }
  Ok(())
}
fn w(name: &str, r: Result<(), String>) { match r { Ok(()) => println!("WITNESS {name} OK"), Err(e) => println!("WITNESS {name} FAIL {e}") } }

fn main() {
  let rt = tokio::runtime::Builder::new_current_thread().enable_all().build().unwrap();
  w("st_generate_all_or_nothing", rt.block_on(generate_all_or_nothing()));
  w("st_purge_all_or_nothing", rt.block_on(purge_all_or_nothing(false)));
  w("st_purge_keeps_references_on_failure", rt.block_on(purge_all_or_nothing(true)));
}
