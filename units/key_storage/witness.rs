// Concrete witnesses for the `key_storage` unit: the shipped in-memory stores of the real crate, driven through the
// JwkStorage / KeyIdStorage trait methods, compared with a plain map model and checked with the EdDSA verifier.
use identity_eddsa_verifier::EdDSAJwsVerifier;
use identity_storage::key_id_storage::{KeyIdMemstore, KeyIdStorage, KeyIdStorageErrorKind, MethodDigest};
use identity_storage::key_storage::{JwkMemStore, JwkStorage, KeyId, KeyStorageErrorKind, KeyType};
use identity_verification::jose::jwk::{Jwk, JwkParamsOkp};
use identity_verification::jose::jws::{JwsAlgorithm, JwsVerifier, VerificationInput};
use identity_verification::VerificationMethod;
use identity_did::CoreDID;
use std::collections::HashMap;

fn verifies(data: &[u8], sig: &[u8], public: &Jwk) -> bool {
  let input = VerificationInput { alg: JwsAlgorithm::EdDSA, signing_input: data.to_vec().into_boxed_slice(), decoded_signature: sig.to_vec().into_boxed_slice() };
  EdDSAJwsVerifier::default().verify(input, public).is_ok()
}
fn digest(n: u8) -> MethodDigest {
  // distinct methods (distinct fragments) give distinct digests
  let did = CoreDID::parse("did:example:abc").unwrap();
  let mut p = JwkParamsOkp::new(); p.crv = "Ed25519".into(); p.x = format!("{:A<43}", n);
  let m = VerificationMethod::new_from_jwk(did, Jwk::from_params(p), Some(&format!("k{n}"))).unwrap();
  MethodDigest::new(&m).unwrap()
}
/// a private JWK as the store itself makes them: generate, then read it back is impossible, so build one by hand
fn private_jwk(alg: Option<&str>) -> Jwk {
  let mut p = JwkParamsOkp::new();
  p.crv = "Ed25519".into();
  // RFC 8037 appendix A test key
  p.x = "11qYAYKxCrfVS_7TyWQHOg7hcvPapiMlrwIaaPcHURo".into();
  p.d = Some("nWGxne_9WmC6hEr0kuwsxERJxWl7MmkZcDusAxyuf2A".into());
  let mut j = Jwk::from_params(p);
  if let Some(a) = alg { j.set_alg(a); }
  j
}

async fn keyid_second_insert_fails() -> Result<(), String> {
  let s = KeyIdMemstore::new();
  let (d1, d2) = (digest(1), digest(2));
  s.insert_key_id(d1.clone(), KeyId::new("first")).await.map_err(|e| format!("first insert: {e}"))?;
  match s.insert_key_id(d1.clone(), KeyId::new("second")).await {
    Ok(()) => return Err("second insert for the same digest succeeded".into()),
    Err(e) => if !matches!(e.kind(), KeyIdStorageErrorKind::KeyIdAlreadyExists) { return Err(format!("second insert: wrong error kind {e}")); }
  }
  let got = s.get_key_id(&d1).await.map_err(|e| format!("get after refused insert: {e}"))?;
  if got.as_str() != "first" { return Err(format!("first mapping not intact: {}", got.as_str())); }
  if s.get_key_id(&d2).await.is_ok() { return Err("never-inserted digest resolves".into()); }
  if s.delete_key_id(&d2).await.is_ok() { return Err("never-inserted digest deletes".into()); }
  if s.count().await != 1 { return Err(format!("count {} != 1", s.count().await)); }
  s.delete_key_id(&d1).await.map_err(|e| format!("delete: {e}"))?;
  if s.get_key_id(&d1).await.is_ok() { return Err("deleted digest still resolves".into()); }
  if s.delete_key_id(&d1).await.is_ok() { return Err("deleted digest deletes again".into()); }
  s.insert_key_id(d1.clone(), KeyId::new("third")).await.map_err(|e| format!("insert after delete: {e}"))?;
  if s.get_key_id(&d1).await.map_err(|e| e.to_string())?.as_str() != "third" { return Err("insert after delete not visible".into()); }
  Ok(())
}

async fn keyid_history_against_model() -> Result<(), String> {
  let s = KeyIdMemstore::new();
  let ds: Vec<MethodDigest> = (0..4).map(digest).collect();
  let mut model: HashMap<usize, String> = HashMap::new();
  let mut x: u64 = 0x9E3779B97F4A7C15;
  for step in 0..3000 {
    x = x.wrapping_mul(6364136223846793005).wrapping_add(1442695040888963407);
    let (op, i) = ((x >> 33) % 3, ((x >> 40) % 4) as usize);
    match op {
      0 => {
        let v = format!("v{step}");
        let r = s.insert_key_id(ds[i].clone(), KeyId::new(v.clone())).await;
        if r.is_ok() == model.contains_key(&i) { return Err(format!("step {step}: insert on digest {i} ok={} but model has={}", r.is_ok(), model.contains_key(&i))); }
        if r.is_ok() { model.insert(i, v); }
      }
      1 => {
        let r = s.delete_key_id(&ds[i]).await;
        if r.is_ok() != model.contains_key(&i) { return Err(format!("step {step}: delete on digest {i} ok={} but model has={}", r.is_ok(), model.contains_key(&i))); }
        model.remove(&i);
      }
      _ => {}
    }
    for j in 0..4 {
      let got = s.get_key_id(&ds[j]).await.ok().map(|k| k.as_str().to_owned());
      if got != model.get(&j).cloned() { return Err(format!("step {step}: digest {j} maps to {got:?}, model {:?}", model.get(&j))); }
    }
    if s.count().await != model.len() { return Err(format!("step {step}: count {} model {}", s.count().await, model.len())); }
  }
  Ok(())
}

async fn generate_public_thumbprint_alg() -> Result<(), String> {
  let s = JwkMemStore::new();
  let out = s.generate(JwkMemStore::ED25519_KEY_TYPE, JwsAlgorithm::EdDSA).await.map_err(|e| format!("generate: {e}"))?;
  if !out.jwk.is_public() || out.jwk.is_private() { return Err("generated JWK is not public-only".into()); }
  if out.jwk.alg() != Some("EdDSA") { return Err(format!("alg {:?}", out.jwk.alg())); }
  if out.jwk.kid() != Some(out.jwk.thumbprint_sha256_b64().as_str()) { return Err(format!("kid {:?} is not the thumbprint {}", out.jwk.kid(), out.jwk.thumbprint_sha256_b64())); }
  if !s.exists(&out.key_id).await.unwrap_or(false) { return Err("generated key id does not exist".into()); }
  if s.count().await != 1 { return Err(format!("count {}", s.count().await)); }
  let out2 = s.generate(JwkMemStore::ED25519_KEY_TYPE, JwsAlgorithm::EdDSA).await.map_err(|e| format!("generate 2: {e}"))?;
  if out2.key_id == out.key_id { return Err("second key id equals the first".into()); }
  // unsupported pairings generate nothing
  for (kt, alg) in [(JwkMemStore::ED25519_KEY_TYPE, JwsAlgorithm::ES256), (JwkMemStore::BLS12381G2_KEY_TYPE, JwsAlgorithm::EdDSA), (KeyType::new("Ed448"), JwsAlgorithm::EdDSA), (KeyType::new(""), JwsAlgorithm::EdDSA)] {
    let before = s.count().await;
    match s.generate(kt.clone(), alg).await {
      Ok(_) => return Err(format!("generate({kt:?}, {alg}) succeeded")),
      Err(_) => if s.count().await != before { return Err(format!("failed generate({kt:?}, {alg}) changed the store")); }
    }
  }
  Ok(())
}

async fn deleted_or_unknown_key_is_gone() -> Result<(), String> {
  let s = JwkMemStore::new();
  let a = s.generate(JwkMemStore::ED25519_KEY_TYPE, JwsAlgorithm::EdDSA).await.map_err(|e| e.to_string())?;
  let b = s.generate(JwkMemStore::ED25519_KEY_TYPE, JwsAlgorithm::EdDSA).await.map_err(|e| e.to_string())?;
  let unknown = KeyId::new("never-issued");
  for id in [&unknown] {
    if s.exists(id).await.map_err(|e| e.to_string())? { return Err("never-issued id exists".into()); }
    if s.sign(id, b"data", &a.jwk).await.is_ok() { return Err("never-issued id signs".into()); }
    match s.delete(id).await { Ok(()) => return Err("never-issued id deletes".into()), Err(e) => if !matches!(e.kind(), KeyStorageErrorKind::KeyNotFound) { return Err(format!("delete unknown: kind {e}")); } }
  }
  if s.count().await != 2 { return Err("store changed by operations on an unknown id".into()); }
  s.delete(&a.key_id).await.map_err(|e| format!("delete: {e}"))?;
  if s.exists(&a.key_id).await.map_err(|e| e.to_string())? { return Err("deleted id exists".into()); }
  if s.sign(&a.key_id, b"data", &a.jwk).await.is_ok() { return Err("deleted id signs".into()); }
  if s.delete(&a.key_id).await.is_ok() { return Err("deleted id deletes again".into()); }
  // the other key is untouched
  if !s.exists(&b.key_id).await.map_err(|e| e.to_string())? || s.count().await != 1 { return Err("deleting one key disturbed another".into()); }
  let sig = s.sign(&b.key_id, b"data", &b.jwk).await.map_err(|e| format!("sign with remaining key: {e}"))?;
  if !verifies(b"data", &sig, &b.jwk) { return Err("remaining key's signature does not verify".into()); }
  Ok(())
}

async fn signature_verifies_under_own_key_only() -> Result<(), String> {
  let s = JwkMemStore::new();
  let mut keys = Vec::new();
  for _ in 0..4 { keys.push(s.generate(JwkMemStore::ED25519_KEY_TYPE, JwsAlgorithm::EdDSA).await.map_err(|e| e.to_string())?); }
  for (i, k) in keys.iter().enumerate() {
    for msg in [&b""[..], b"a", b"The quick brown fox", &[0u8; 300][..]] {
      let sig = s.sign(&k.key_id, msg, &k.jwk).await.map_err(|e| format!("sign {i}: {e}"))?;
      if sig.len() != 64 { return Err(format!("signature length {}", sig.len())); }
      for (j, o) in keys.iter().enumerate() {
        if verifies(msg, &sig, &o.jwk) != (i == j) { return Err(format!("signature by key {i} over {} bytes: verifies under key {j} = {}", msg.len(), i != j)); }
      }
      if !msg.is_empty() && verifies(&msg[1..], &sig, &k.jwk) { return Err("signature verifies for another message".into()); }
    }
  }
  // the caller's public key must name EdDSA / Ed25519
  let mut wrong_alg = keys[0].jwk.clone(); wrong_alg.set_alg("ES256");
  if s.sign(&keys[0].key_id, b"x", &wrong_alg).await.is_ok() { return Err("sign accepted a public key with alg ES256".into()); }
  let mut no_alg = Jwk::from_params(keys[0].jwk.try_okp_params().unwrap().clone()); no_alg.set_kid("k");
  if s.sign(&keys[0].key_id, b"x", &no_alg).await.is_ok() { return Err("sign accepted a public key without alg".into()); }
  Ok(())
}

async fn insert_requires_private_compatible() -> Result<(), String> {
  let s = JwkMemStore::new();
  let good = private_jwk(Some("EdDSA"));
  let public = good.to_public().unwrap();
  let cases: Vec<(&str, Jwk)> = vec![
    ("public-only", public.clone()),
    ("no alg", private_jwk(None)),
    ("alg ES256", private_jwk(Some("ES256"))),
    ("alg nonsense", private_jwk(Some("EdDSA "))),
    ("crv Ed448", { let mut j = private_jwk(Some("EdDSA")); j.try_okp_params_mut().unwrap().crv = "Ed448".into(); j }),
    ("crv X25519", { let mut j = private_jwk(Some("EdDSA")); j.try_okp_params_mut().unwrap().crv = "X25519".into(); j }),
  ];
  for (what, j) in cases {
    match s.insert(j).await {
      Ok(_) => return Err(format!("insert accepted a JWK with {what}")),
      Err(_) => if s.count().await != 0 { return Err(format!("refused insert ({what}) changed the store")); }
    }
  }
  let id = s.insert(good.clone()).await.map_err(|e| format!("insert of a private EdDSA key: {e}"))?;
  if !s.exists(&id).await.unwrap_or(false) || s.count().await != 1 { return Err("inserted key not present".into()); }
  let sig = s.sign(&id, b"msg", &public).await.map_err(|e| format!("sign with inserted key: {e}"))?;
  if !verifies(b"msg", &sig, &public) { return Err("inserted key's signature does not verify under its public JWK".into()); }
  // two DIFFERENT keys carrying the same kid (and the same key inserted twice) are separate entries: nothing is overwritten
  let mut a = good.clone(); a.set_kid("shared-kid");
  let mut b = {
    let mut p = JwkParamsOkp::new();
    p.crv = "Ed25519".into();
    // second RFC 8032 test key (TEST 2)
    p.x = "PUAXw-hDiVqStwqnTRt-vJyYLM8uxJaMwM1V8Sr0Zgw".into();
    p.d = Some("TM0Imyj_ltqdtsNG7BFOD1uKMZ81q6Yk2oz27U-4pvs".into());
    let mut j = Jwk::from_params(p); j.set_alg("EdDSA"); j
  };
  b.set_kid("shared-kid");
  let (pa, pb) = (a.to_public().unwrap(), b.to_public().unwrap());
  let ida = s.insert(a.clone()).await.map_err(|e| format!("insert a: {e}"))?;
  let idb = s.insert(b.clone()).await.map_err(|e| format!("insert b: {e}"))?;
  let ida2 = s.insert(a.clone()).await.map_err(|e| format!("insert a again: {e}"))?;
  if ida == idb || ida == ida2 || idb == ida2 || ida == id { return Err("inserts of keys sharing a kid were given the same key id".into()); }
  if s.count().await != 4 { return Err(format!("count {} after 4 successful inserts", s.count().await)); }
  for (k, own, other) in [(&ida, &pa, &pb), (&idb, &pb, &pa), (&ida2, &pa, &pb)] {
    let sig = s.sign(k, b"m", own).await.map_err(|e| format!("sign: {e}"))?;
    if !verifies(b"m", &sig, own) || verifies(b"m", &sig, other) { return Err("after inserting keys that share a kid, a key id signs with another key".into()); }
  }
  Ok(())
}

async fn key_history_against_model() -> Result<(), String> {
  let s = JwkMemStore::new();
  let mut model: Vec<(KeyId, Jwk)> = Vec::new();
  let mut dead: Vec<(KeyId, Jwk)> = Vec::new();
  let mut x: u64 = 0xD1B54A32D192ED03;
  for step in 0..400 {
    x = x.wrapping_mul(6364136223846793005).wrapping_add(1442695040888963407);
    let op = (x >> 33) % 4;
    let pick = (x >> 40) as usize;
    match op {
      0 if model.len() < 6 => { let o = s.generate(JwkMemStore::ED25519_KEY_TYPE, JwsAlgorithm::EdDSA).await.map_err(|e| format!("step {step}: generate {e}"))?;
        if model.iter().chain(dead.iter()).any(|(k, _)| *k == o.key_id) { return Err(format!("step {step}: key id reused")); }
        model.push((o.key_id, o.jwk)); }
      1 if !model.is_empty() => { let (k, j) = model.remove(pick % model.len()); s.delete(&k).await.map_err(|e| format!("step {step}: delete live key: {e}"))?; dead.push((k, j)); }
      2 if !dead.is_empty() => { let (k, j) = &dead[pick % dead.len()];
        if s.sign(k, b"m", j).await.is_ok() || s.exists(k).await.unwrap_or(true) || s.delete(k).await.is_ok() { return Err(format!("step {step}: a deleted key id still signs, exists or deletes")); } }
      _ => {}
    }
    if s.count().await != model.len() { return Err(format!("step {step}: count {} model {}", s.count().await, model.len())); }
    for (i, (k, j)) in model.iter().enumerate() {
      if !s.exists(k).await.unwrap_or(false) { return Err(format!("step {step}: live key {i} does not exist")); }
      if step % 20 == 0 {
        let msg = [step as u8, i as u8];
        let sig = s.sign(k, &msg, j).await.map_err(|e| format!("step {step}: sign live key: {e}"))?;
        for (i2, (_, j2)) in model.iter().enumerate() { if verifies(&msg, &sig, j2) != (i == i2) { return Err(format!("step {step}: signature of key {i} under key {i2}: {}", i != i2)); } }
      }
    }
  }
  Ok(())
}

/// MethodDigest::{pack, unpack}: total on every byte string (bounded exhaustive over {0,1,9,255}^<=10) and inverse of one another
fn method_digest_pack_unpack() -> Result<(), String> {
  let alphabet = [0u8, 1, 9, 255];
  let mut n = 0u32;
  for len in 0..=10usize {
    let total = alphabet.len().pow(len as u32);
    for code in 0..total {
      let mut c = code; let mut b = Vec::with_capacity(len);
      for _ in 0..len { b.push(alphabet[c % alphabet.len()]); c /= alphabet.len(); }
      n += 1;
      let r = std::panic::catch_unwind(|| MethodDigest::unpack(b.clone())).map_err(|_| format!("MethodDigest::unpack({b:?}) PANICS"))?;
      let want = b.len() == 9 && b[0] == 0;
      match r { Ok(d) => { if !want { return Err(format!("unpack({b:?}) accepted")); } if d.pack() != b { return Err(format!("pack(unpack({b:?})) = {:?}", d.pack())); } }, Err(_) => if want { return Err(format!("unpack({b:?}) refused")); } }
    }
  }
  for i in 0..4u8 { let d = digest(i); let p = d.pack(); if p.len() != 9 || p[0] != 0 || MethodDigest::unpack(p.clone()).ok().as_ref() != Some(&d) { return Err(format!("unpack(pack(d)) != d for {p:?}")); } }
  if n < 1_000_000 { return Err(format!("only {n} byte strings")); }
  Ok(())
}

fn w(name: &str, r: Result<(), String>) { match r { Ok(()) => println!("WITNESS {name} OK"), Err(e) => println!("WITNESS {name} FAIL {e}") } }

fn main() {
  let rt = tokio::runtime::Builder::new_current_thread().enable_all().build().unwrap();
  std::panic::set_hook(Box::new(|_| {}));
  w("ks_method_digest_pack_unpack", method_digest_pack_unpack());
  w("ks_keyid_second_insert_fails", rt.block_on(keyid_second_insert_fails()));
  w("ks_keyid_history_against_model", rt.block_on(keyid_history_against_model()));
  w("ks_generate_public_thumbprint_alg", rt.block_on(generate_public_thumbprint_alg()));
  w("ks_deleted_or_unknown_key_is_gone", rt.block_on(deleted_or_unknown_key_is_gone()));
  w("ks_signature_verifies_under_own_key_only", rt.block_on(signature_verifies_under_own_key_only()));
  w("ks_insert_requires_private_compatible", rt.block_on(insert_requires_private_compatible()));
  w("ks_key_history_against_model", rt.block_on(key_history_against_model()));
}
