// Unit `jose_headers` — serves C11 (+ C05 for the same functions).
#![feature(allocator_api)]
use vstd::prelude::*;
use std::collections::BTreeMap;
verus! {

// ---- shared std prelude (assumed specifications of core/alloc items vstd does not cover) ----
pub mod vxstd {
use vstd::prelude::*;
/// Rust's `?` converts the error with `From::from`; vstd leaves `spec_from` uninterpreted.
pub broadcast proof fn axiom_question_mark_uses_from<F: From<E>, E>(e: E, r: F)
  ensures #[trigger] vstd::std_specs::control_flow::spec_from::<F, E>(e, r) ==> call_ensures(<F as From<E>>::from, (e,), r)
{ admit(); }
/// `str` values are determined by their characters (Verus compares string patterns by value, exec `==` by view).
pub broadcast proof fn axiom_str_ext(a: &str, b: &str)
  ensures #![trigger a@, b@] (a@ == b@) ==> a == b
{ admit(); }
/// the items an `IntoIterator` yields (uninterpreted; pinned down for slices below)
pub uninterp spec fn iter_items<T, I>(i: I) -> Seq<T>;
/// iterating a `&[T]` yields its elements in order
pub broadcast proof fn axiom_iter_items_slice<'a, T>(s: &'a [T])
  ensures #[trigger] iter_items::<T, &'a [T]>(s) == s@
{ admit(); }
/// `String == str` (also through references) compares the characters.
pub broadcast proof fn axiom_string_str_eq(a: &String, b: &str)
  ensures #![trigger a@, b@] <String as vstd::std_specs::cmp::PartialEqSpec<str>>::obeys_eq_spec()
    && <String as vstd::std_specs::cmp::PartialEqSpec<str>>::eq_spec(a, b) == (a@ == b@)
{ admit(); }
}
/// ASSUMED std spec: Option::or_else
pub assume_specification<T, F: FnOnce() -> Option<T>>[ Option::<T>::or_else ](o: Option<T>, f: F) -> (r: Option<T>)
  requires o is None ==> f.requires(()),
  ensures o is Some ==> r == o, o is None ==> f.ensures((), r);
/// ASSUMED std spec: Vec::extend from an iterator of references appends the items
pub assume_specification<'a, T: Copy + 'a, A: core::alloc::Allocator, I: IntoIterator<Item = &'a T>>[ <Vec<T, A> as Extend<&'a T>>::extend ](v: &mut Vec<T, A>, i: I)
  ensures final(v)@ == old(v)@ + vxstd::iter_items::<T, I>(i);
/// ASSUMED std spec: Option<Result<T,E>>::transpose
pub assume_specification<T, E>[ Option::<Result<T, E>>::transpose ](o: Option<Result<T, E>>) -> (r: Result<Option<T>, E>)
  ensures
    o is None ==> r == Ok::<Option<T>, E>(None),
    o is Some && o->Some_0 is Ok ==> r == Ok::<Option<T>, E>(Some(o->Some_0->Ok_0)),
    o is Some && o->Some_0 is Err ==> r == Err::<Option<T>, E>(o->Some_0->Err_0);
/// ASSUMED std spec: Vec<T> -> Box<[T]> keeps the elements
pub assume_specification<T, A: core::alloc::Allocator>[ <Box<[T], A> as From<Vec<T, A>>>::from ](v: Vec<T, A>) -> (r: Box<[T], A>)
  ensures r@ == v@;
/// ASSUMED std spec: Option::filter (facts are stated in the direction closures support: f.ensures(args, b) ==> clause)
pub assume_specification<T, P: FnOnce(&T) -> bool>[ Option::<T>::filter ](o: Option<T>, p: P) -> (r: Option<T>)
  requires o is Some ==> p.requires((&o->Some_0,)),
  ensures
    o is None ==> r is None,
    o is Some ==> (r == o && p.ensures((&o->Some_0,), true)) || (r is None && p.ensures((&o->Some_0,), false));
/// ASSUMED std spec: Option::as_deref
pub assume_specification<T>[ Option::<T>::as_deref ](o: &Option<T>) -> (r: Option<&<T as core::ops::Deref>::Target>)
  where T: core::ops::Deref
  ensures r is Some <==> o is Some,
    o is Some ==> call_ensures(<T as core::ops::Deref>::deref, (&o->Some_0,), r->Some_0);
/// ASSUMED std spec: bool::then_some
pub assume_specification<T>[ bool::then_some ](b: bool, t: T) -> (r: Option<T>)
  ensures r == (if b { Some(t) } else { None::<T> });


// ---- foreign types (opaque) ----
#[verifier::external_body] pub struct Url { _p: () }
#[verifier::external_body] pub struct Jwk { _p: () }
#[verifier::external_body] pub struct Value { _p: () }
#[verifier::external_body] #[derive(Clone, Copy)] pub struct JwsAlgorithm { _p: () }


pub mod ax {
use vstd::prelude::*;
/// ASSUMED (String keys looked up by &str): String's ordering is str's ordering and obeys the comparison laws,
/// and a key that maps to a value is contained.  vstd states these only for Box/primitive keys.
pub proof fn axiom_string_keys_ordered()
  ensures vstd::std_specs::btree::borrowed_key_ordering_matches::<String, str>(), vstd::laws_cmp::obeys_cmp::<String>(),
{ admit(); }
pub broadcast proof fn axiom_string_key_maps_contains<V>(m: Map<String, V>, q: &str, v: V)
  ensures #[trigger] vstd::std_specs::btree::maps_borrowed_key_to_value(m, q, v) ==> vstd::std_specs::btree::contains_borrowed_key(m, q)
{ admit(); }

}
broadcast use {vxstd::axiom_str_ext, vxstd::axiom_string_str_eq, vxstd::axiom_iter_items_slice, ax::axiom_string_key_maps_contains};

pub struct JwtHeader {
  pub jku: Option<Url>,
  pub jwk: Option<Jwk>,
  pub kid: Option<String>,
  pub x5u: Option<Url>,
  pub x5c: Option<Vec<String>>,
  pub x5t: Option<String>,
  pub x5t_s256: Option<String>,
  pub typ: Option<String>,
  pub cty: Option<String>,
  pub crit: Option<Vec<String>>,
  pub url: Option<Url>,
  pub nonce: Option<String>,
}

/// presence of a registered member, by name (mirrors the table in the RFC, written independently of the code)
pub open spec fn jwt_has(h: &JwtHeader, claim: Seq<char>) -> bool {
  if claim == "jku"@ { h.jku is Some }
  else if claim == "jwk"@ { h.jwk is Some }
  else if claim == "kid"@ { h.kid is Some }
  else if claim == "x5u"@ { h.x5u is Some }
  else if claim == "x5c"@ { h.x5c is Some }
  else if claim == "x5t"@ { h.x5t is Some }
  else if claim == "x5t#S256"@ { h.x5t_s256 is Some }
  else if claim == "typ"@ { h.typ is Some }
  else if claim == "cty"@ { h.cty is Some }
  else if claim == "crit"@ { h.crit is Some }
  else if claim == "url"@ { h.url is Some }
  else if claim == "nonce"@ { h.nonce is Some }
  else { false }
}
pub open spec fn jwt_disjoint(a: &JwtHeader, b: &JwtHeader) -> bool {
  !(a.jku is Some && b.jku is Some) && !(a.jwk is Some && b.jwk is Some) && !(a.kid is Some && b.kid is Some)
  && !(a.x5u is Some && b.x5u is Some) && !(a.x5c is Some && b.x5c is Some) && !(a.x5t is Some && b.x5t is Some)
  && !(a.x5t_s256 is Some && b.x5t_s256 is Some) && !(a.typ is Some && b.typ is Some) && !(a.cty is Some && b.cty is Some)
  && !(a.crit is Some && b.crit is Some) && !(a.url is Some && b.url is Some) && !(a.nonce is Some && b.nonce is Some)
}

impl JwtHeader {
  pub fn jku(&self) -> (r: Option<&Url>)
    ensures r is Some <==> self.jku is Some,
  {
    self.jku.as_ref()
  }
  pub fn jwk(&self) -> (r: Option<&Jwk>)
    ensures r is Some <==> self.jwk is Some,
  {
    self.jwk.as_ref()
  }
  pub fn kid(&self) -> (r: Option<&str>)
    ensures r is Some <==> self.kid is Some,
  {
    self.kid.as_deref()
  }
  pub fn x5u(&self) -> (r: Option<&Url>)
    ensures r is Some <==> self.x5u is Some,
  {
    self.x5u.as_ref()
  }
  pub fn x5c(&self) -> (r: Option<&[String]>)
    ensures r is Some <==> self.x5c is Some,
  {
    self.x5c.as_deref()
  }
  pub fn x5t(&self) -> (r: Option<&str>)
    ensures r is Some <==> self.x5t is Some,
  {
    self.x5t.as_deref()
  }
  pub fn x5t_s256(&self) -> (r: Option<&str>)
    ensures r is Some <==> self.x5t_s256 is Some,
  {
    self.x5t_s256.as_deref()
  }
  pub fn typ(&self) -> (r: Option<&str>)
    ensures r is Some <==> self.typ is Some,
  {
    self.typ.as_deref()
  }
  pub fn cty(&self) -> (r: Option<&str>)
    ensures r is Some <==> self.cty is Some,
  {
    self.cty.as_deref()
  }
  pub fn crit(&self) -> (r: Option<&[String]>)
    ensures r is Some <==> self.crit is Some, r is Some ==> r->Some_0@ == self.crit->Some_0@,
  {
    self.crit.as_deref()
  }
  pub fn url(&self) -> (r: Option<&Url>)
    ensures r is Some <==> self.url is Some,
  {
    self.url.as_ref()
  }
  pub fn nonce(&self) -> (r: Option<&str>)
    ensures r is Some <==> self.nonce is Some,
  {
    self.nonce.as_deref()
  }
  pub fn has(&self, claim: &str) -> (r: bool)
    ensures r == jwt_has(self, claim@),
  {
    match claim {
      "jku" => self.jku().is_some(),
      "jwk" => self.jwk().is_some(),
      "kid" => self.kid().is_some(),
      "x5u" => self.x5u().is_some(),
      "x5c" => self.x5c().is_some(),
      "x5t" => self.x5t().is_some(),
      "x5t#S256" => self.x5t_s256().is_some(),
      "typ" => self.typ().is_some(),
      "cty" => self.cty().is_some(),
      "crit" => self.crit().is_some(),
      "url" => self.url().is_some(),
      "nonce" => self.nonce().is_some(),
      _ => false,
    }
  }
  pub fn is_disjoint(&self, other: &JwtHeader) -> (r: bool)
    ensures r == jwt_disjoint(self, other),
  {
    let has_duplicate: bool = self.jku.is_some() && other.jku.is_some()
      || self.jwk.is_some() && other.jwk.is_some()
      || self.kid.is_some() && other.kid.is_some()
      || self.x5u.is_some() && other.x5u.is_some()
      || self.x5c.is_some() && other.x5c.is_some()
      || self.x5t.is_some() && other.x5t.is_some()
      || self.x5t_s256.is_some() && other.x5t_s256.is_some()
      || self.typ.is_some() && other.typ.is_some()
      || self.cty.is_some() && other.cty.is_some()
      || self.crit.is_some() && other.crit.is_some()
      || self.url.is_some() && other.url.is_some()
      || self.nonce.is_some() && other.nonce.is_some();

    !has_duplicate
  }
}

// ---- BTreeMap<String, Value> (custom header parameters): vstd's model; lookups by borrowed key ----
pub open spec fn bt_has(m: &BTreeMap<String, Value>, q: &str) -> bool { vstd::std_specs::btree::contains_borrowed_key(m@, q) }
pub trait JoseHeader {
  spec fn common_spec(&self) -> &JwtHeader;
  spec fn has_claim_spec(&self, claim: Seq<char>) -> bool;
  fn common(&self) -> (r: &JwtHeader) ensures r == self.common_spec();
  fn has_claim(&self, claim: &str) -> (r: bool) ensures r == self.has_claim_spec(claim@);
}

pub struct JwsHeader {
  pub common: JwtHeader,
  pub alg: Option<JwsAlgorithm>,
  pub b64: Option<bool>,
  pub custom: Option<BTreeMap<String, Value>>,
}

pub open spec fn custom_has(h: &JwsHeader, claim: Seq<char>) -> bool {
  h.custom is Some && exists|q: &str| q@ == claim && #[trigger] bt_has(&h.custom->Some_0, q)
}
/// presence of a header parameter by name (written from the RFC member list, independent of the code)
pub open spec fn jws_has(h: &JwsHeader, claim: Seq<char>) -> bool {
  if claim == "alg"@ { h.alg is Some }
  else if claim == "b64"@ { h.b64 is Some }
  else { jwt_has(&h.common, claim) || custom_has(h, claim) }
}
/// ASSUMED contract of `is_custom_disjoint` (BTreeMap key iteration is outside the verifier's reach)
pub uninterp spec fn custom_disjoint(a: &JwsHeader, b: &JwsHeader) -> bool;
pub open spec fn jws_disjoint(a: &JwsHeader, b: &JwsHeader) -> bool {
  !(a.alg is Some && b.alg is Some) && !(a.b64 is Some && b.b64 is Some) && jwt_disjoint(&a.common, &b.common)
  && custom_disjoint(a, b)
}

impl JwsHeader {
  pub fn alg(&self) -> (r: Option<JwsAlgorithm>)
    ensures r == self.alg,
  {
    self.alg.as_ref().cloned()
  }
  pub fn b64(&self) -> (r: Option<bool>)
    ensures r == self.b64,
  {
    self.b64
  }
  pub fn has(&self, claim: &str) -> (r: bool)
    ensures r == jws_has(self, claim@),
  { proof { ax::axiom_string_keys_ordered(); } 
    match claim {
      "alg" => self.alg().is_some(),
      "b64" => self.b64().is_some(),
      _ => {
        self.common.has(claim)
          || self
            .custom
            .as_ref()
            .map(|custom: &BTreeMap<String, Value>| -> (b: bool) ensures b == bt_has(custom, claim) { custom.get(claim).is_some() })
            .unwrap_or(false)
      }
    }
  }
  pub fn is_disjoint(&self, other: &JwsHeader) -> (r: bool)
    ensures r == jws_disjoint(self, other),
  {
    let has_duplicate: bool = self.alg().is_some() && other.alg.is_some() || self.b64.is_some() && other.b64.is_some();

    !has_duplicate && self.common.is_disjoint(other.common()) && self.is_custom_disjoint(other)
  }
  #[verifier::external_body]
  fn is_custom_disjoint(&self, other: &JwsHeader) -> (r: bool)
    ensures r == custom_disjoint(self, other),
  { unimplemented!() }
}

impl core::ops::Deref for JwsHeader {
  type Target = JwtHeader;
  fn deref(&self) -> (r: &Self::Target)
    ensures r == &self.common,
  {
    &self.common
  }
}

impl JoseHeader for JwsHeader {
  open spec fn common_spec(&self) -> &JwtHeader { &self.common }
  open spec fn has_claim_spec(&self, claim: Seq<char>) -> bool { jws_has(self, claim) }
  fn common(&self) -> &JwtHeader
  {
    self
  }
  fn has_claim(&self, claim: &str) -> bool
  {
    self.has(claim)
  }
}

// =============================== jwu::serde validators ===============================
pub mod serde_json { use vstd::prelude::*; #[verifier::external_body] pub struct Error { _p: () } }
pub mod identity_core { pub mod error { use vstd::prelude::*; #[verifier::external_body] pub struct Error { _p: () } } }
#[verifier::external_body] pub struct SignatureVerificationError { _p: () }
pub mod jws_mod { pub use super::SignatureVerificationError; }
#[verifier::external_type_specification] #[verifier::external_body] pub struct ExUtf8Error(core::str::Utf8Error);
pub type Result<T, E = Error> = core::result::Result<T, E>;
pub enum Error {
  InvalidJson( serde_json::Error),
  InvalidBase64( identity_core::error::Error),
  InvalidUtf8( core::str::Utf8Error),
  InvalidClaim(&'static str),
  MissingClaim(&'static str),
  InvalidParam(&'static str),
  MissingParam(&'static str),
  InvalidContent(&'static str),
  KeyError(&'static str),
  JwsAlgorithmParsingError,
  SignatureVerificationError( SignatureVerificationError),
  MissingHeader(&'static str),
  ProtectedHeaderWithoutAlg,
}

const DEFAULT_B64: bool = true;
pub exec const PREDEFINED: &'static [&'static str] ensures PREDEFINED@.len() == reg_names().len(), forall|i: int| 0 <= i < 20 ==> (#[trigger] PREDEFINED@[i])@ == reg_names()[i] { &[
  "alg", "jku", "jwk", "kid", "x5u", "x5c", "x5t", "x5t#s256", "typ", "cty", "crit", "enc", "zip", "epk", "apu", "apv",
  "iv", "tag", "p2s", "p2c",
] }
pub exec const PERMITTED_CRITS: &'static [&'static str] ensures PERMITTED_CRITS@.len() == 1, PERMITTED_CRITS@[0]@ == "b64"@ { &["b64"] }

pub assume_specification<T: PartialEq>[ <[T]>::contains ](s: &[T], x: &T) -> (r: bool)
  ensures r == (exists|i: int| 0 <= i < s@.len() && s@[i] == *x);
pub assume_specification<'a, T>[ <&'a [T] as Default>::default ]() -> (r: &'a [T]) ensures r@.len() == 0;
pub assume_specification[ <String as AsRef<str>>::as_ref ](s: &String) -> (r: &str) ensures r@ == s@;

/// the registered JOSE header parameter names (RFC 7515 §4.1, RFC 7516 §4.1, RFC 7518 §4.6/4.7/4.8), lower-cased as the library spells them
pub open spec fn reg_names() -> Seq<Seq<char>> {
  seq!["alg"@, "jku"@, "jwk"@, "kid"@, "x5u"@, "x5c"@, "x5t"@, "x5t#s256"@, "typ"@, "cty"@, "crit"@, "enc"@, "zip"@, "epk"@, "apu"@, "apv"@,
       "iv"@, "tag"@, "p2s"@, "p2c"@]
}
pub open spec fn is_registered(name: Seq<char>) -> bool { exists|i: int| 0 <= i < reg_names().len() && #[trigger] reg_names()[i] == name }
/// the only extension parameter this library implements
pub open spec fn is_implemented_ext(name: Seq<char>) -> bool { name == "b64"@ }
pub open spec fn has_in(h: Option<&JwsHeader>, name: Seq<char>) -> bool { h is Some && jws_has(h->Some_0, name) }
pub open spec fn crit_of(h: Option<&JwsHeader>) -> Option<Seq<String>> {
  if h is Some && h->Some_0.common.crit is Some { Some(h->Some_0.common.crit->Some_0@) } else { None }
}
pub open spec fn b64_of(h: Option<&JwsHeader>) -> Option<bool> { if h is Some { h->Some_0.b64 } else { None } }

/// C11, crit rules: only protected, non-empty, no registered name, only implemented extensions, every named parameter present
pub open spec fn crit_ok(p: Option<&JwsHeader>, u: Option<&JwsHeader>) -> bool {
  &&& !has_in(u, "crit"@)
  &&& crit_of(p) is Some ==> {
        let c = crit_of(p)->Some_0;
        &&& c.len() > 0
        &&& forall|i: int| 0 <= i < c.len() ==> !is_registered(#[trigger] c[i]@) && is_implemented_ext(c[i]@)
              && has_in(p, c[i]@)
      }
}
/// C11, b64 rules: only protected; when present it is listed in crit
pub open spec fn b64_ok(p: Option<&JwsHeader>, u: Option<&JwsHeader>) -> bool {
  &&& b64_of(u) is None
  &&& b64_of(p) is Some ==> crit_of(p) is Some && exists|i: int| 0 <= i < crit_of(p)->Some_0.len() && #[trigger] crit_of(p)->Some_0[i]@ == "b64"@
}
pub open spec fn disjoint_ok(p: Option<&JwsHeader>, u: Option<&JwsHeader>) -> bool {
  p is Some && u is Some ==> jws_disjoint(p->Some_0, u->Some_0)
}
pub open spec fn policy_ok(p: Option<&JwsHeader>, u: Option<&JwsHeader>) -> bool {
  disjoint_ok(p, u) && crit_ok(p, u) && b64_ok(p, u)
}

pub(crate) fn extract_b64(header: Option<&JwsHeader>) -> (r: bool)
  ensures r == (if b64_of(header) is Some { b64_of(header)->Some_0 } else { true }),
{
  header.and_then(|x_eta| -> (r_eta: _) requires call_requires(JwsHeader::b64, (x_eta,)) ensures call_ensures(JwsHeader::b64, (x_eta,), r_eta) { JwsHeader::b64(x_eta) }).unwrap_or(DEFAULT_B64)
}

pub(crate) fn validate_disjoint(protected: Option<&JwsHeader>, unprotected: Option<&JwsHeader>) -> (r: Result<()>)
  ensures r is Ok <==> disjoint_ok(protected, unprotected),
{
  let is_disjoint: bool = match (protected, unprotected) {
    (Some(protected), Some(unprotected)) => protected.is_disjoint(unprotected),
    _ => true,
  };

  if is_disjoint {
    Ok(())
  } else {
    Err(Error::InvalidContent(
      "protected and unprotected headers are not disjoint",
    ))
  }
}

/// crit rules stated for any JOSE header type (validate_crit is generic)
pub open spec fn crit_ok_gen<T: JoseHeader>(p: Option<&T>, u: Option<&T>) -> bool {
  &&& !(u is Some && u->Some_0.has_claim_spec("crit"@))
  &&& (p is Some && p->Some_0.common_spec().crit is Some) ==> {
        let c = p->Some_0.common_spec().crit->Some_0@;
        &&& c.len() > 0
        &&& forall|i: int| 0 <= i < c.len() ==> !is_registered(#[trigger] c[i]@) && is_implemented_ext(c[i]@)
              && p->Some_0.has_claim_spec(c[i]@)
      }
}

pub(crate) fn validate_crit<T>(protected: Option<&T>, unprotected: Option<&T>) -> (r: Result<()>) where
T: JoseHeader,
  ensures r is Ok <==> crit_ok_gen(protected, unprotected),
{
  // The "crit" parameter MUST be integrity protected
  let unprotected_values: &[String] = unprotected
    .and_then(|header: &T| -> (b: bool) ensures b == header.has_claim_spec("crit"@) { header.common().crit() })
    .unwrap_or_default();
  if !unprotected_values.is_empty() {
    return Err(Error::InvalidParam("unprotected crit"));
  }

  let values: Option<&[String]> = protected.and_then(|header: &T| -> (o: Option<&[String]>) ensures o is Some <==> header.common_spec().crit is Some, o is Some ==> o->Some_0@ == header.common_spec().crit->Some_0@ { header.common().crit() });

  // The "crit" parameter MUST NOT be an empty list
  if values.map(|values: &[String]| -> (b: bool) ensures b == (values@.len() == 0) { values.is_empty() }).unwrap_or_default() {
    return Err(Error::InvalidParam("empty crit"));
  }

  let values: &[String] = values.unwrap_or_default();

  for value in it: values 
invariant values@ =~= (if protected is Some && protected->Some_0.common_spec().crit is Some { protected->Some_0.common_spec().crit->Some_0@ } else { Seq::<String>::empty() }),
forall|j: int| 0 <= j < it.index@ ==> !is_registered(#[trigger] values@[j]@) && is_implemented_ext(values@[j]@) && protected is Some && protected->Some_0.has_claim_spec(values@[j]@),
{
    // The "crit" parameter MUST NOT contain any header parameters defined by
    // the JOSE JWS/JWA specifications.
    if PREDEFINED.contains(&&**value) {
      return Err(Error::InvalidParam("crit contains pre-defined parameters"));
    }

    // The "crit" parameter MUST be understood by the application.
    if !PERMITTED_CRITS.contains(&AsRef::<str>::as_ref(value)) {
      return Err(Error::InvalidParam("unpermitted crit"));
    }

    let exists: bool = protected
      .map(|header: &T| -> (b: bool) ensures b == header.has_claim_spec(value@) { header.has_claim(value) })
      .or_else(|| -> (o: Option<bool>) ensures o is Some <==> unprotected is Some, o is Some ==> o->Some_0 == unprotected->Some_0.has_claim_spec(value@) { unprotected.map(|header: &T| -> (b: bool) ensures b == header.has_claim_spec(value@) { header.has_claim(value) }) })
      .unwrap_or_default();

    if !exists {
      return Err(Error::InvalidParam("crit"));
    }
  }

  Ok(())
}

pub(crate) fn validate_b64(protected: Option<&JwsHeader>, unprotected: Option<&JwsHeader>) -> (r: Result<()>)
  ensures r is Ok <==> (b64_of(unprotected) is None && !(b64_of(protected) is Some && crit_of(protected) is None)),
{
  // The "b64" parameter MUST be integrity protected
  if unprotected.and_then(|x_eta| -> (r_eta: _) requires call_requires(JwsHeader::b64, (x_eta,)) ensures call_ensures(JwsHeader::b64, (x_eta,), r_eta) { JwsHeader::b64(x_eta) }).is_some() {
    return Err(Error::InvalidParam("unprotected `b64` parameter"));
  }

  let b64: Option<bool> = protected.and_then(|header: &JwsHeader| -> (o: Option<bool>) ensures o == header.b64 { header.b64() });
  let crit: Option<&[String]> = protected.and_then(|header: &JwsHeader| -> (o: Option<&[String]>) ensures o is Some <==> header.common.crit is Some, o is Some ==> o->Some_0@ == header.common.crit->Some_0@ { header.crit() });

  // The "b64" parameter MUST be included in the "crit" parameter values
  match (b64, crit) {
    (Some(_), Some(values)) if values.iter().any(|value: &String| -> (b: bool) ensures b == (value@ == "b64"@) { value == "b64" }) => Ok(()),
    (Some(_), None) => Err(Error::InvalidParam(
      "`b64` param must be included in the crit parameter values",
    )),
    _ => Ok(()),
  }
}

/// the property's rule set coincides with what the three validators establish together
pub proof fn lemma_policy(p: Option<&JwsHeader>, u: Option<&JwsHeader>)
  ensures policy_ok(p, u) <==> (disjoint_ok(p, u) && crit_ok_gen::<JwsHeader>(p, u)
            && b64_of(u) is None && !(b64_of(p) is Some && crit_of(p) is None)),
{
  if crit_ok_gen::<JwsHeader>(p, u) && crit_of(p) is Some {
    let c = crit_of(p)->Some_0;
    assert(is_implemented_ext(c[0]@));
    assert(crit_of(p)->Some_0[0]@ == "b64"@);
  }
}

pub(crate) fn validate_jws_headers(protected: Option<&JwsHeader>, unprotected: Option<&JwsHeader>) -> (r: Result<()>)
  ensures r is Ok <==> policy_ok(protected, unprotected),
{ proof { lemma_policy(protected, unprotected); } 
  validate_disjoint(protected, unprotected)?;
  validate_crit(protected, unprotected)?;
  validate_b64(protected, unprotected)?;

  Ok(())
}



} // verus!
fn main() {}

