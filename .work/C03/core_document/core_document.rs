// Unit `core_document` — serves C04 (resolution / attach / detach clauses), and the method-resolution clauses of
// C02, C03, C08 (+ C05). All functions are verified at the instantiation Q = DIDUrlQuery<'_> (R7): `.into()` on a
// value that already is a DIDUrlQuery<'_> is the identity.
#![feature(allocator_api)]
use vstd::prelude::*;
use vstd::string::StringSliceAdditionalSpecFns;
verus! {

// ---- shared std prelude (assumed specifications of core/alloc items vstd does not cover) ----
pub mod vxstd {
use vstd::prelude::*;
/// Rust's `?` converts the error with `From::from`; vstd leaves `spec_from` uninterpreted.
pub broadcast proof fn axiom_question_mark_uses_from<F: From<E>, E>(e: E, r: F)
  ensures #[trigger] vstd::std_specs::control_flow::spec_from::<F, E>(e, r) ==> call_ensures(<F as From<E>>::from, (e,), r)
{ admit(); }
/// `str` values are determined by their characters (Verus compares string patterns by value, exec `==` by view).
pub broadcast proof fn axiom_str_ext(a: &str, b: &str)
  ensures #![trigger a@, b@] (a@ == b@) ==> a == b
{ admit(); }
/// the items an `IntoIterator` yields (uninterpreted; pinned down for slices below)
pub uninterp spec fn iter_items<T, I>(i: I) -> Seq<T>;
/// iterating a `&[T]` yields its elements in order
pub broadcast proof fn axiom_iter_items_slice<'a, T>(s: &'a [T])
  ensures #[trigger] iter_items::<T, &'a [T]>(s) == s@
{ admit(); }
/// `String == str` (also through references) compares the characters.
pub broadcast proof fn axiom_string_str_eq(a: &String, b: &str)
  ensures #![trigger a@, b@] <String as vstd::std_specs::cmp::PartialEqSpec<str>>::obeys_eq_spec()
    && <String as vstd::std_specs::cmp::PartialEqSpec<str>>::eq_spec(a, b) == (a@ == b@)
{ admit(); }
}
/// ASSUMED std spec: Option::or_else
pub assume_specification<T, F: FnOnce() -> Option<T>>[ Option::<T>::or_else ](o: Option<T>, f: F) -> (r: Option<T>)
  requires o is None ==> f.requires(()),
  ensures o is Some ==> r == o, o is None ==> f.ensures((), r);
/// ASSUMED std spec: Vec::extend from an iterator of references appends the items
pub assume_specification<'a, T: Copy + 'a, A: core::alloc::Allocator, I: IntoIterator<Item = &'a T>>[ <Vec<T, A> as Extend<&'a T>>::extend ](v: &mut Vec<T, A>, i: I)
  ensures final(v)@ == old(v)@ + vxstd::iter_items::<T, I>(i);
/// ASSUMED std spec: Option<Result<T,E>>::transpose
pub assume_specification<T, E>[ Option::<Result<T, E>>::transpose ](o: Option<Result<T, E>>) -> (r: Result<Option<T>, E>)
  ensures
    o is None ==> r == Ok::<Option<T>, E>(None),
    o is Some && o->Some_0 is Ok ==> r == Ok::<Option<T>, E>(Some(o->Some_0->Ok_0)),
    o is Some && o->Some_0 is Err ==> r == Err::<Option<T>, E>(o->Some_0->Err_0);
/// ASSUMED std spec: Vec<T> -> Box<[T]> keeps the elements
pub assume_specification<T, A: core::alloc::Allocator>[ <Box<[T], A> as From<Vec<T, A>>>::from ](v: Vec<T, A>) -> (r: Box<[T], A>)
  ensures r@ == v@;
/// ASSUMED std spec: Option::filter (facts are stated in the direction closures support: f.ensures(args, b) ==> clause)
pub assume_specification<T, P: FnOnce(&T) -> bool>[ Option::<T>::filter ](o: Option<T>, p: P) -> (r: Option<T>)
  requires o is Some ==> p.requires((&o->Some_0,)),
  ensures
    o is None ==> r is None,
    o is Some ==> (r == o && p.ensures((&o->Some_0,), true)) || (r is None && p.ensures((&o->Some_0,), false));
/// ASSUMED std spec: Option::as_deref
pub assume_specification<T>[ Option::<T>::as_deref ](o: &Option<T>) -> (r: Option<&<T as core::ops::Deref>::Target>)
  where T: core::ops::Deref
  ensures r is Some <==> o is Some,
    o is Some ==> call_ensures(<T as core::ops::Deref>::deref, (&o->Some_0,), r->Some_0);
/// ASSUMED std spec: bool::then_some
pub assume_specification<T>[ bool::then_some ](b: bool, t: T) -> (r: Option<T>)
  ensures r == (if b { Some(t) } else { None::<T> });


// ------------------------------------------------------------------------------------------------
// Dependency boundary (opaque / ASSUMED): DID types, VerificationMethod, Service, the query matcher,
// and the ordered-set collection (its operations are under contract in unit `ordered_set`).
// ------------------------------------------------------------------------------------------------
pub mod dep {
  use vstd::prelude::*;
  #[verifier::external_body] pub struct DIDUrl { _p: () }
  #[verifier::external_body] pub struct CoreDID { _p: () }
  #[verifier::external_body] pub struct Url { _p: () }
  #[verifier::external_body] pub struct Object { _p: () }
  #[verifier::external_body] pub struct Service { _p: () }
  #[verifier::external_body] pub struct VerificationMethod { _p: () }
  #[verifier::external_body] #[verifier::reject_recursive_types(T)] pub struct OneOrSet<T> { _p: core::marker::PhantomData<T> }
  /// `DIDUrlQuery<'_>`: opaque; `matches` is an uninterpreted relation between a query and an id
  #[verifier::external_body] pub struct DIDUrlQuery<'q> { _p: core::marker::PhantomData<&'q ()> }
  pub uninterp spec fn q_matches(q: &DIDUrlQuery<'_>, id: &DIDUrl) -> bool;
  pub uninterp spec fn vm_id(m: &VerificationMethod) -> &DIDUrl;
  pub uninterp spec fn svc_id(s: &Service) -> &DIDUrl;
  /// the query a DID URL / a string converts into (`From<&DIDUrl>`, `From<&String>` for DIDUrlQuery<'_>)
  pub uninterp spec fn q_of_url(u: &DIDUrl) -> DIDUrlQuery<'static>;
  pub uninterp spec fn q_of_str(s: Seq<char>) -> DIDUrlQuery<'static>;
  pub uninterp spec fn url_text(u: &DIDUrl) -> Seq<char>;
  /// ASSUMED: converting an id to text and the text to a query is the same as converting the id to a query
  pub broadcast proof fn axiom_q_of_text(u: &DIDUrl) ensures #[trigger] q_of_str(url_text(u)) == q_of_url(u) { admit(); }
  impl Clone for DIDUrl { #[verifier::external_body] fn clone(&self) -> (r: Self) ensures r == *self { unimplemented!() } }
  impl<'q> Clone for DIDUrlQuery<'q> { #[verifier::external_body] fn clone(&self) -> (r: Self) ensures r == *self { unimplemented!() } }
  impl DIDUrl { #[verifier::external_body] pub fn to_string(&self) -> (r: String) ensures r@ == url_text(self) { unimplemented!() } }
  impl VerificationMethod { #[verifier::external_body] pub fn id(&self) -> (r: &DIDUrl) ensures r == vm_id(self) { unimplemented!() } }
  impl Service { #[verifier::external_body] pub fn id(&self) -> (r: &DIDUrl) ensures r == svc_id(self) { unimplemented!() } }

  pub struct OrderedSet<T>(pub Vec<T>);
}
use dep::*;

#[derive(Clone, Copy)]
pub enum MethodRelationship {
  Authentication,
  AssertionMethod,
  KeyAgreement,
  CapabilityDelegation,
  CapabilityInvocation,
}
#[derive(Clone, Copy)]
pub enum MethodScope {
  VerificationMethod,
  VerificationRelationship(MethodRelationship),
}
pub enum MethodRef {
  Embed(VerificationMethod),
  Refer(DIDUrl),
}
pub struct CoreDocumentData
{
  pub id: CoreDID,
  pub controller: Option<OneOrSet<CoreDID>>,
  pub also_known_as: OrderedSet<Url>,
  pub verification_method: OrderedSet<VerificationMethod>,
  pub authentication: OrderedSet<MethodRef>,
  pub assertion_method: OrderedSet<MethodRef>,
  pub key_agreement: OrderedSet<MethodRef>,
  pub capability_delegation: OrderedSet<MethodRef>,
  pub capability_invocation: OrderedSet<MethodRef>,
  pub service: OrderedSet<Service>,
  pub properties: Object,
}
pub struct CoreDocument
{
  pub data: CoreDocumentData,
}
pub mod identity_core { use vstd::prelude::*; #[verifier::external_body] pub struct Error { _p: () } }
pub mod identity_verification { use vstd::prelude::*; #[verifier::external_body] pub struct Error { _p: () }
  pub mod jose { pub mod error { use vstd::prelude::*; #[verifier::external_body] pub struct OtherJoseError { _p: () } pub enum Error { InvalidParam(&'static str), Other(OtherJoseError) } } } }
pub type Result<T, E = Error> = ::core::result::Result<T, E>;
pub enum Error {
  MethodNotFound,
  InvalidDocument(&'static str,  Option<identity_core::Error>),
  InvalidService(&'static str),
  MissingIdFragment,
  MethodInsertionError,
  InvalidMethodEmbedded,
  InvalidServiceInsertion,
  InvalidKeyMaterial( identity_verification::Error),
  JwsVerificationError( identity_verification::jose::error::Error),
}

pub open spec fn ref_id(r: &MethodRef) -> &DIDUrl { match r { MethodRef::Embed(m) => vm_id(m), MethodRef::Refer(u) => u } }

// ------------------------------------ abstract model (written from the property) ------------------------------------
/// index of the first element of `s` whose id matches the query, if any
pub open spec fn first_vm(s: Seq<VerificationMethod>, q: &DIDUrlQuery<'_>) -> Option<int> {
  if exists|i: int| 0 <= i < s.len() && q_matches(q, vm_id(&#[trigger] s[i])) {
    Some(choose|i: int| 0 <= i < s.len() && q_matches(q, vm_id(&#[trigger] s[i])) && forall|j: int| 0 <= j < i ==> !q_matches(q, vm_id(&#[trigger] s[j])))
  } else { None }
}
pub open spec fn first_ref(s: Seq<MethodRef>, q: &DIDUrlQuery<'_>) -> Option<int> {
  if exists|i: int| 0 <= i < s.len() && q_matches(q, ref_id(&#[trigger] s[i])) {
    Some(choose|i: int| 0 <= i < s.len() && q_matches(q, ref_id(&#[trigger] s[i])) && forall|j: int| 0 <= j < i ==> !q_matches(q, ref_id(&#[trigger] s[j])))
  } else { None }
}
/// the collection a relationship names (written independently of the code)
pub open spec fn rel_set(d: &CoreDocument, rel: MethodRelationship) -> Seq<MethodRef> {
  match rel {
    MethodRelationship::Authentication => d.data.authentication.0@,
    MethodRelationship::AssertionMethod => d.data.assertion_method.0@,
    MethodRelationship::KeyAgreement => d.data.key_agreement.0@,
    MethodRelationship::CapabilityDelegation => d.data.capability_delegation.0@,
    MethodRelationship::CapabilityInvocation => d.data.capability_invocation.0@,
  }
}
/// what a relationship entry denotes: an embedded method is itself, a reference is the referenced general-purpose method
pub open spec fn deref_ref(d: &CoreDocument, r: &MethodRef) -> Option<VerificationMethod> {
  match r {
    MethodRef::Embed(m) => Some(*m),
    MethodRef::Refer(u) => { let k = first_vm(d.data.verification_method.0@, &q_of_url(u)); if k is Some { Some(d.data.verification_method.0@[k->Some_0]) } else { None } }
  }
}
/// the model's answer for "resolve this query within this scope"
pub open spec fn resolve_scoped(d: &CoreDocument, q: &DIDUrlQuery<'_>, scope: MethodScope) -> Option<VerificationMethod> {
  match scope {
    MethodScope::VerificationMethod => { let k = first_vm(d.data.verification_method.0@, q); if k is Some { Some(d.data.verification_method.0@[k->Some_0]) } else { None } }
    MethodScope::VerificationRelationship(rel) => { let k = first_ref(rel_set(d, rel), q); if k is Some { deref_ref(d, &rel_set(d, rel)[k->Some_0]) } else { None } }
  }
}

/// `Queryable::query` on the two element types, at the query conversions the document uses:
/// ASSUMED contract = first match in collection order (`iter().find(..)` with the opaque matcher)
impl OrderedSet<VerificationMethod> {
  #[verifier::external_body]
  pub fn query(&self, query: DIDUrlQuery<'_>) -> (r: Option<&VerificationMethod>)
    ensures r is Some <==> first_vm(self.0@, &query) is Some, r is Some ==> *r->Some_0 == self.0@[first_vm(self.0@, &query)->Some_0]
  { unimplemented!() }
  #[verifier::external_body]
  pub fn query_url(&self, query: &DIDUrl) -> (r: Option<&VerificationMethod>)
    ensures r is Some <==> first_vm(self.0@, &q_of_url(query)) is Some, r is Some ==> *r->Some_0 == self.0@[first_vm(self.0@, &q_of_url(query))->Some_0]
  { unimplemented!() }
  #[verifier::external_body]
  pub fn query_string(&self, query: &String) -> (r: Option<&VerificationMethod>)
    ensures r is Some <==> first_vm(self.0@, &q_of_str(query@)) is Some, r is Some ==> *r->Some_0 == self.0@[first_vm(self.0@, &q_of_str(query@))->Some_0]
  { unimplemented!() }
}
impl OrderedSet<MethodRef> {
  #[verifier::external_body]
  pub fn query(&self, query: DIDUrlQuery<'_>) -> (r: Option<&MethodRef>)
    ensures r is Some <==> first_ref(self.0@, &query) is Some, r is Some ==> *r->Some_0 == self.0@[first_ref(self.0@, &query)->Some_0]
  { unimplemented!() }
}

// ---------------------------- JWS verification against a document (C03 / C08 clauses) ----------------------------
pub struct JwsVerificationOptions {
  pub nonce: Option<String>,
  pub method_scope: Option<MethodScope>,
  pub method_id: Option<DIDUrl>,
}
/// the jose side (contracts as proved in unit `jws_decode`, here abstract): a decoded token with its protected-header
/// nonce / kid, and "verify succeeded under this key"
#[verifier::external_body] pub struct JwsValidationItem<'a> { _p: core::marker::PhantomData<&'a ()> }
#[verifier::external_body] pub struct DecodedJws<'a> { _p: core::marker::PhantomData<&'a ()> }
#[verifier::external_body] pub struct Jwk { _p: () }
#[verifier::external_body] pub struct Decoder { _p: () }
#[verifier::external_body] pub struct MethodData { _p: () }
pub uninterp spec fn item_of(jws: Seq<u8>, detached: Option<Seq<u8>>) -> JwsValidationItem<'static>;
pub uninterp spec fn item_nonce(i: &JwsValidationItem<'_>) -> Option<Seq<char>>;
pub uninterp spec fn item_kid(i: &JwsValidationItem<'_>) -> Option<Seq<char>>;
pub uninterp spec fn verified_under<T>(i: &JwsValidationItem<'_>, verifier: &T, key: &Jwk) -> bool;
pub uninterp spec fn method_jwk(m: &VerificationMethod) -> Option<Jwk>;
pub trait JwsVerifier {}
impl Decoder {
  #[verifier::external_body] pub fn new() -> Decoder { unimplemented!() }
  #[verifier::external_body]
  pub fn decode_compact_serialization<'b>(&self, jws_bytes: &'b [u8], detached_payload: Option<&'b [u8]>) -> (r: core::result::Result<JwsValidationItem<'b>, identity_verification::jose::error::Error>)
    ensures r is Ok ==> r->Ok_0 == item_of(jws_bytes@, if detached_payload is Some { Some(detached_payload->Some_0@) } else { None })
  { unimplemented!() }
}
impl<'a> JwsValidationItem<'a> {
  #[verifier::external_body] pub fn nonce(&self) -> (r: Option<&str>) ensures r is Some <==> item_nonce(self) is Some, r is Some ==> r->Some_0@ == item_nonce(self)->Some_0 { unimplemented!() }
  #[verifier::external_body] pub fn kid(&self) -> (r: Option<&str>) ensures r is Some <==> item_kid(self) is Some, r is Some ==> r->Some_0@ == item_kid(self)->Some_0 { unimplemented!() }
  #[verifier::external_body]
  pub fn verify<T: JwsVerifier>(self, verifier: &T, public_key: &Jwk) -> (r: core::result::Result<DecodedJws<'a>, identity_verification::jose::error::Error>)
    ensures r is Ok ==> verified_under(&self, verifier, public_key)
  { unimplemented!() }
}
impl VerificationMethod { #[verifier::external_body] pub fn data(&self) -> (r: &MethodData) ensures r == vm_data(self) { unimplemented!() } }
pub uninterp spec fn data_jwk(d: &MethodData) -> Option<Jwk>;
pub uninterp spec fn vm_data(m: &VerificationMethod) -> &MethodData;
pub open spec fn data_jwk_of(m: &VerificationMethod) -> Option<Jwk> { data_jwk(vm_data(m)) }
impl MethodData {
  #[verifier::external_body]
  pub fn try_public_key_jwk(&self) -> (r: core::result::Result<&Jwk, identity_verification::Error>) ensures r is Ok <==> data_jwk(self) is Some, r is Ok ==> *r->Ok_0 == data_jwk(self)->Some_0 { unimplemented!() }
}

/// `From<&DIDUrl>` / `From<&str>` for DIDUrlQuery (ASSUMED: they build the queries named q_of_url / q_of_str)
impl<'q> vstd::std_specs::convert::FromSpecImpl<&'q DIDUrl> for DIDUrlQuery<'q> {
  open spec fn obeys_from_spec() -> bool { true }
  open spec fn from_spec(u: &'q DIDUrl) -> Self { q_of_url(u) }
}
impl<'q> From<&'q DIDUrl> for DIDUrlQuery<'q> { #[verifier::external_body] fn from(u: &'q DIDUrl) -> (r: Self) ensures r == q_of_url(u) { unimplemented!() } }
impl<'q> vstd::std_specs::convert::FromSpecImpl<&'q str> for DIDUrlQuery<'q> {
  open spec fn obeys_from_spec() -> bool { true }
  open spec fn from_spec(s: &'q str) -> Self { q_of_str(s@) }
}
impl<'q> From<&'q str> for DIDUrlQuery<'q> { #[verifier::external_body] fn from(s: &'q str) -> (r: Self) ensures r == q_of_str(s@) { unimplemented!() } }
pub open spec fn opt_str(o: Option<String>) -> Option<Seq<char>> { if o is Some { Some(o->Some_0@) } else { None } }

/// OrderedSet<MethodRef>::{append, remove} and OrderedSet<Service>::remove: contracts as established in unit `ordered_set`
/// (append proved there; remove assumed + bounded), instantiated for key = id
pub open spec fn has_ref_id(s: Seq<MethodRef>, id: &DIDUrl) -> bool { exists|i: int| 0 <= i < s.len() && ref_id(&#[trigger] s[i]) == id }
impl OrderedSet<MethodRef> {
  #[verifier::external_body]
  pub fn append(&mut self, item: MethodRef) -> (r: bool)
    ensures r == !has_ref_id(old(self).0@, ref_id(&item)), final(self).0@ == (if r { old(self).0@.push(item) } else { old(self).0@ })
  { unimplemented!() }
  #[verifier::external_body]
  pub fn remove(&mut self, item: &DIDUrl) -> (r: Option<MethodRef>)
    ensures
      r is Some <==> has_ref_id(old(self).0@, item),
      r is None ==> final(self).0@ == old(self).0@,
      r is Some ==> exists|idx: int| 0 <= idx < old(self).0@.len() && ref_id(&#[trigger] old(self).0@[idx]) == item
        && (forall|j: int| 0 <= j < idx ==> ref_id(&#[trigger] old(self).0@[j]) != item)
        && r->Some_0 == old(self).0@[idx] && final(self).0@ == old(self).0@.remove(idx),
  { unimplemented!() }
}
impl OrderedSet<Service> {
  #[verifier::external_body]
  pub fn remove(&mut self, item: &DIDUrl) -> (r: Option<Service>)
    ensures
      r is None ==> final(self).0@ == old(self).0@,
      r is Some ==> exists|idx: int| 0 <= idx < old(self).0@.len() && svc_id(&#[trigger] old(self).0@[idx]) == item
        && r->Some_0 == old(self).0@[idx] && final(self).0@ == old(self).0@.remove(idx),
  { unimplemented!() }
}
/// everything of a document except one relationship collection
pub open spec fn same_except_rel(a: &CoreDocument, b: &CoreDocument, rel: MethodRelationship) -> bool {
  &&& a.data.id == b.data.id && a.data.controller == b.data.controller && a.data.also_known_as == b.data.also_known_as
  &&& a.data.verification_method == b.data.verification_method && a.data.service == b.data.service && a.data.properties == b.data.properties
  &&& forall|r: MethodRelationship| r != rel ==> #[trigger] rel_set(a, r) == rel_set(b, r)
}

pub mod fns { use vstd::prelude::*; use super::*;
broadcast use dep::axiom_q_of_text;
impl CoreDocument {
  pub fn resolve_method_ref<'a>(&'a self, method_ref: &'a MethodRef) -> (r: Option<&'a VerificationMethod>)
    ensures r is Some <==> deref_ref(self, method_ref) is Some, r is Some ==> *r->Some_0 == deref_ref(self, method_ref)->Some_0,
  {
    match method_ref {
      MethodRef::Embed(method) => Some(method),
      MethodRef::Refer(did) => self.data.verification_method.query_url(did),
    }
  }

  fn resolve_method_inner(&self, query: DIDUrlQuery<'_>) -> (r: Option<&VerificationMethod>)
    ensures ({
      let q = &query;
      // fixed collection order; the first relationship entry that matches wins, a reference is followed into verificationMethod;
      // without any matching relationship entry the general-purpose methods are searched
      let a = first_ref(self.data.authentication.0@, q); let b = first_ref(self.data.assertion_method.0@, q);
      let c = first_ref(self.data.key_agreement.0@, q); let d = first_ref(self.data.capability_delegation.0@, q);
      let e = first_ref(self.data.capability_invocation.0@, q);
      let expected =
        if a is Some { deref_ref(self, &self.data.authentication.0@[a->Some_0]) }
        else if b is Some { deref_ref(self, &self.data.assertion_method.0@[b->Some_0]) }
        else if c is Some { deref_ref(self, &self.data.key_agreement.0@[c->Some_0]) }
        else if d is Some { deref_ref(self, &self.data.capability_delegation.0@[d->Some_0]) }
        else if e is Some { deref_ref(self, &self.data.capability_invocation.0@[e->Some_0]) }
        else { resolve_scoped(self, q, MethodScope::VerificationMethod) };
      (r is Some <==> expected is Some) && (r is Some ==> *r->Some_0 == expected->Some_0)
    }),
  {
    let mut method: Option<&MethodRef> = None;

    if method.is_none() {
      method = self.data.authentication.query(query.clone());
    }

    if method.is_none() {
      method = self.data.assertion_method.query(query.clone());
    }

    if method.is_none() {
      method = self.data.key_agreement.query(query.clone());
    }

    if method.is_none() {
      method = self.data.capability_delegation.query(query.clone());
    }

    if method.is_none() {
      method = self.data.capability_invocation.query(query.clone());
    }

    match method {
      Some(MethodRef::Embed(method)) => Some(method),
      Some(MethodRef::Refer(did)) => self.data.verification_method.query_string(&did.to_string()),
      None => self.data.verification_method.query(query),
    }
  }

  pub fn resolve_method<'me>(
  &'me self,
  method_query: DIDUrlQuery<'_>,
  scope: Option<MethodScope>,
  ) -> (r: Option<&'me VerificationMethod>)
    ensures
      // with a scope: exactly the model's entry for THAT scope (never another relationship's)
      scope is Some ==> (r is Some <==> resolve_scoped(self, &method_query, scope->Some_0) is Some)
        && (r is Some ==> *r->Some_0 == resolve_scoped(self, &method_query, scope->Some_0)->Some_0),
  {
    match scope {
      Some(scope) => {
        let resolve_ref_helper = |method_ref: &'me MethodRef| -> (o: Option<&'me VerificationMethod>) ensures o is Some <==> deref_ref(self, method_ref) is Some, o is Some ==> *o->Some_0 == deref_ref(self, method_ref)->Some_0 { self.resolve_method_ref(method_ref) };

        match scope {
          MethodScope::VerificationMethod => self.data.verification_method.query(method_query),
          MethodScope::VerificationRelationship(MethodRelationship::Authentication) => self
            .data
            .authentication
            .query(method_query)
            .and_then(resolve_ref_helper),
          MethodScope::VerificationRelationship(MethodRelationship::AssertionMethod) => self
            .data
            .assertion_method
            .query(method_query)
            .and_then(resolve_ref_helper),
          MethodScope::VerificationRelationship(MethodRelationship::KeyAgreement) => self
            .data
            .key_agreement
            .query(method_query)
            .and_then(resolve_ref_helper),
          MethodScope::VerificationRelationship(MethodRelationship::CapabilityDelegation) => self
            .data
            .capability_delegation
            .query(method_query)
            .and_then(resolve_ref_helper),
          MethodScope::VerificationRelationship(MethodRelationship::CapabilityInvocation) => self
            .data
            .capability_invocation
            .query(method_query)
            .and_then(resolve_ref_helper),
        }
      }
      None => self.resolve_method_inner(method_query),
    }
  }
}

impl CoreDocument {
  pub fn attach_method_relationship<'query>(
  &mut self,
  method_query: DIDUrlQuery<'query>,
  relationship: MethodRelationship,
  ) -> (r: Result<bool>)
    ensures ({
      let gp = resolve_scoped(old(self), &method_query, MethodScope::VerificationMethod);
      // only a general-purpose method can be attached; a refused operation leaves the document unchanged
      &&& (r is Ok <==> gp is Some)
      &&& r is Err ==> *final(self) == *old(self)
      &&& r is Ok ==> {
            let id = vm_id(&gp->Some_0);
            &&& same_except_rel(final(self), old(self), relationship)
            &&& r->Ok_0 == !has_ref_id(rel_set(old(self), relationship), id)
            &&& rel_set(final(self), relationship) == (if r->Ok_0 { rel_set(old(self), relationship).push(MethodRef::Refer(*id)) } else { rel_set(old(self), relationship) })
          }
    }),
  {
    let method_query: DIDUrlQuery<'query> = method_query;

    match self.resolve_method(method_query.clone(), Some(MethodScope::VerificationMethod)) {
      None => match self.resolve_method(method_query, None) {
        Some(_) => Err(Error::InvalidMethodEmbedded),
        None => Err(Error::MethodNotFound),
      },
      Some(method) => {
        let method_ref = MethodRef::Refer(method.id().clone());

        let was_attached = match relationship {
          MethodRelationship::Authentication => self.data.authentication.append(method_ref),
          MethodRelationship::AssertionMethod => self.data.assertion_method.append(method_ref),
          MethodRelationship::KeyAgreement => self.data.key_agreement.append(method_ref),
          MethodRelationship::CapabilityDelegation => self.data.capability_delegation.append(method_ref),
          MethodRelationship::CapabilityInvocation => self.data.capability_invocation.append(method_ref),
        };

        Ok(was_attached)
      }
    }
  }

  pub fn detach_method_relationship<'query>(
  &mut self,
  method_query: DIDUrlQuery<'query>,
  relationship: MethodRelationship,
  ) -> (r: Result<bool>)
    ensures ({
      let gp = resolve_scoped(old(self), &method_query, MethodScope::VerificationMethod);
      &&& (r is Ok <==> gp is Some)
      &&& r is Err ==> *final(self) == *old(self)
      &&& r is Ok ==> {
            let id = vm_id(&gp->Some_0);
            // only the named relationship's collection can change, and only by losing the entry with that id
            &&& same_except_rel(final(self), old(self), relationship)
            &&& r->Ok_0 == has_ref_id(rel_set(old(self), relationship), id)
            &&& !r->Ok_0 ==> rel_set(final(self), relationship) == rel_set(old(self), relationship)
            &&& r->Ok_0 ==> exists|idx: int| 0 <= idx < rel_set(old(self), relationship).len() && ref_id(&#[trigger] rel_set(old(self), relationship)[idx]) == id
                  && rel_set(final(self), relationship) == rel_set(old(self), relationship).remove(idx)
          }
    }),
  {
    let method_query: DIDUrlQuery<'query> = method_query;
    match self.resolve_method(method_query.clone(), Some(MethodScope::VerificationMethod)) {
      None => match self.resolve_method(method_query, None) {
        Some(_) => Err(Error::InvalidMethodEmbedded),
        None => Err(Error::MethodNotFound),
      },
      Some(method) => {
        let did_url: DIDUrl = method.id().clone();

        let was_detached = match relationship {
          MethodRelationship::Authentication => self.data.authentication.remove(&did_url),
          MethodRelationship::AssertionMethod => self.data.assertion_method.remove(&did_url),
          MethodRelationship::KeyAgreement => self.data.key_agreement.remove(&did_url),
          MethodRelationship::CapabilityDelegation => self.data.capability_delegation.remove(&did_url),
          MethodRelationship::CapabilityInvocation => self.data.capability_invocation.remove(&did_url),
        };

        Ok(was_detached.is_some())
      }
    }
  }

  pub fn remove_service(&mut self, id: &DIDUrl) -> (r: Option<Service>)
    ensures
      r is None ==> final(self).data.service.0@ == old(self).data.service.0@,
      final(self).data.verification_method == old(self).data.verification_method
        && forall|rel: MethodRelationship| #[trigger] rel_set(final(self), rel) == rel_set(old(self), rel),
  {
    self.data.service.remove(id)
  }
}

impl CoreDocument {
  pub fn verify_jws<'jws, T: JwsVerifier>(
  &self,
  jws: &'jws str,
  detached_payload: Option<&'jws [u8]>,
  signature_verifier: &T,
  options: &JwsVerificationOptions,
  ) -> (r: Result<DecodedJws<'jws>>)
    ensures
      r is Ok ==> ({
        let item = item_of(jws.spec_bytes(), if detached_payload is Some { Some(detached_payload->Some_0@) } else { None });
        let q = if options.method_id is Some { q_of_url(&options.method_id->Some_0) } else { q_of_str(item_kid(&item)->Some_0) };
        // matching nonce (absent on both sides counts as matching, absent on one side does not)
        &&& item_nonce(&item) == opt_str(options.nonce)
        &&& (options.method_id is None ==> item_kid(&item) is Some)
        // the key is that of a method of THIS document, chosen by the configured method id or the header kid, within the configured scope
        &&& options.method_scope is Some ==> {
              let m = resolve_scoped(self, &q, options.method_scope->Some_0);
              m is Some && data_jwk_of(&m->Some_0) is Some && verified_under(&item, signature_verifier, &data_jwk_of(&m->Some_0)->Some_0)
            }
      }),
  {
    let validation_item = Decoder::new()
      .decode_compact_serialization(jws.as_bytes(), detached_payload)
      .map_err(|x_eta| -> (r_eta: Error) ensures r_eta == Error::JwsVerificationError(x_eta) { Error::JwsVerificationError(x_eta) })?;

    let nonce: Option<&str> = options.nonce.as_deref();
    // Validate the nonce
    if let Some(jws_nonce) = validation_item.nonce() {
      if Some(jws_nonce) != nonce {
        return Err(Error::JwsVerificationError(
          identity_verification::jose::error::Error::InvalidParam("invalid nonce value"),
        ));
      }
    }

    let method_url_query: DIDUrlQuery<'_> = match &options.method_id {
      Some(method_id) => method_id.into(),
      None => validation_item
        .kid()
        .ok_or(Error::JwsVerificationError(
          identity_verification::jose::error::Error::InvalidParam("missing kid value"),
        ))?
        .into(),
    };

    let public_key: &Jwk = self
      .resolve_method(method_url_query, options.method_scope)
      .ok_or(Error::MethodNotFound)?
      .data()
      .try_public_key_jwk()
      .map_err(|x_eta| -> (r_eta: Error) ensures r_eta == Error::InvalidKeyMaterial(x_eta) { Error::InvalidKeyMaterial(x_eta) })?;

    validation_item
      .verify(signature_verifier, public_key)
      .map_err(|x_eta| -> (r_eta: Error) ensures r_eta == Error::JwsVerificationError(x_eta) { Error::JwsVerificationError(x_eta) })
  }
}
} // mod fns

} // verus!
fn main() {}

