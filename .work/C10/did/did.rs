// Unit `did` — serves C10 (+ C05, C17 for the CoreDID clauses).
#![feature(allocator_api)]
use vstd::prelude::*;
verus! {

// ---- shared std prelude (assumed specifications of core/alloc items vstd does not cover) ----
pub mod vxstd {
use vstd::prelude::*;
/// Rust's `?` converts the error with `From::from`; vstd leaves `spec_from` uninterpreted.
pub broadcast proof fn axiom_question_mark_uses_from<F: From<E>, E>(e: E, r: F)
  ensures #[trigger] vstd::std_specs::control_flow::spec_from::<F, E>(e, r) ==> call_ensures(<F as From<E>>::from, (e,), r)
{ admit(); }
/// `str` values are determined by their characters (Verus compares string patterns by value, exec `==` by view).
pub broadcast proof fn axiom_str_ext(a: &str, b: &str)
  ensures #![trigger a@, b@] (a@ == b@) ==> a == b
{ admit(); }
/// the items an `IntoIterator` yields (uninterpreted; pinned down for slices below)
pub uninterp spec fn iter_items<T, I>(i: I) -> Seq<T>;
/// iterating a `&[T]` yields its elements in order
pub broadcast proof fn axiom_iter_items_slice<'a, T>(s: &'a [T])
  ensures #[trigger] iter_items::<T, &'a [T]>(s) == s@
{ admit(); }
/// `String == str` (also through references) compares the characters.
pub broadcast proof fn axiom_string_str_eq(a: &String, b: &str)
  ensures #![trigger a@, b@] <String as vstd::std_specs::cmp::PartialEqSpec<str>>::obeys_eq_spec()
    && <String as vstd::std_specs::cmp::PartialEqSpec<str>>::eq_spec(a, b) == (a@ == b@)
{ admit(); }
}
/// ASSUMED std spec: Option::or_else
pub assume_specification<T, F: FnOnce() -> Option<T>>[ Option::<T>::or_else ](o: Option<T>, f: F) -> (r: Option<T>)
  requires o is None ==> f.requires(()),
  ensures o is Some ==> r == o, o is None ==> f.ensures((), r);
/// ASSUMED std spec: Vec::extend from an iterator of references appends the items
pub assume_specification<'a, T: Copy + 'a, A: core::alloc::Allocator, I: IntoIterator<Item = &'a T>>[ <Vec<T, A> as Extend<&'a T>>::extend ](v: &mut Vec<T, A>, i: I)
  ensures final(v)@ == old(v)@ + vxstd::iter_items::<T, I>(i);
/// ASSUMED std spec: Option<Result<T,E>>::transpose
pub assume_specification<T, E>[ Option::<Result<T, E>>::transpose ](o: Option<Result<T, E>>) -> (r: Result<Option<T>, E>)
  ensures
    o is None ==> r == Ok::<Option<T>, E>(None),
    o is Some && o->Some_0 is Ok ==> r == Ok::<Option<T>, E>(Some(o->Some_0->Ok_0)),
    o is Some && o->Some_0 is Err ==> r == Err::<Option<T>, E>(o->Some_0->Err_0);
/// ASSUMED std spec: Vec<T> -> Box<[T]> keeps the elements
pub assume_specification<T, A: core::alloc::Allocator>[ <Box<[T], A> as From<Vec<T, A>>>::from ](v: Vec<T, A>) -> (r: Box<[T], A>)
  ensures r@ == v@;
/// ASSUMED std spec: Option::filter (facts are stated in the direction closures support: f.ensures(args, b) ==> clause)
pub assume_specification<T, P: FnOnce(&T) -> bool>[ Option::<T>::filter ](o: Option<T>, p: P) -> (r: Option<T>)
  requires o is Some ==> p.requires((&o->Some_0,)),
  ensures
    o is None ==> r is None,
    o is Some ==> (r == o && p.ensures((&o->Some_0,), true)) || (r is None && p.ensures((&o->Some_0,), false));


// ------------------------------------------------------------------------------------------------
// Dependency boundary: did_url_parser 0.3.0 (`BaseDIDUrl`), opaque. The contract of `parse` is what
// the crate gives a caller that does not re-validate: *some* value, nothing about its components
// (it indexes its input by byte and skips one character after every %XX triple). Its PANIC condition
// is stated as a precondition: a %XX triple at the very end of the input makes it index past the end.
// ------------------------------------------------------------------------------------------------
pub mod did_url_parser {
  use vstd::prelude::*;
  #[verifier::external_body] pub struct DID { _p: () }
  #[verifier::external_body] pub struct Error { _p: () }
  pub uninterp spec fn scheme_of(d: &DID) -> Seq<char>;
  pub uninterp spec fn method_of(d: &DID) -> Seq<char>;
  pub uninterp spec fn method_id_of(d: &DID) -> Seq<char>;
  pub uninterp spec fn path_of(d: &DID) -> Seq<char>;
  pub uninterp spec fn query_of(d: &DID) -> Option<Seq<char>>;
  pub uninterp spec fn fragment_of(d: &DID) -> Option<Seq<char>>;
  /// the input ends with '%' followed by two characters that `u8::from_str_radix(_, 16)` accepts
  pub uninterp spec fn ends_with_pct_triple(s: Seq<char>) -> bool;
  impl DID {
    #[verifier::external_body]
    pub fn parse_str(input: &str) -> (r: core::result::Result<DID, Error>)
      requires !ends_with_pct_triple(input@),
    { unimplemented!() }
    #[verifier::external_body] pub fn scheme(&self) -> (r: &'static str) ensures r@ == scheme_of(self) { unimplemented!() }
    #[verifier::external_body] pub fn method(&self) -> (r: &str) ensures r@ == method_of(self) { unimplemented!() }
    #[verifier::external_body] pub fn method_id(&self) -> (r: &str) ensures r@ == method_id_of(self) { unimplemented!() }
    #[verifier::external_body] pub fn path(&self) -> (r: &str) ensures r@ == path_of(self) { unimplemented!() }
    #[verifier::external_body] pub fn query(&self) -> (r: Option<&str>) ensures r is Some <==> query_of(self) is Some, r is Some ==> r->Some_0@ == query_of(self)->Some_0 { unimplemented!() }
    #[verifier::external_body] pub fn fragment(&self) -> (r: Option<&str>) ensures r is Some <==> fragment_of(self) is Some, r is Some ==> r->Some_0@ == fragment_of(self)->Some_0 { unimplemented!() }
    /// setters: only the named component changes
    #[verifier::external_body] pub fn set_method_str(&mut self, value: &str)
      ensures method_of(final(self)) == value@, method_id_of(final(self)) == method_id_of(old(self)), scheme_of(final(self)) == scheme_of(old(self)),
        path_of(final(self)) == path_of(old(self)), query_of(final(self)) == query_of(old(self)), fragment_of(final(self)) == fragment_of(old(self)) { unimplemented!() }
    #[verifier::external_body] pub fn set_method_id_str(&mut self, value: &str)
      ensures method_id_of(final(self)) == value@, method_of(final(self)) == method_of(old(self)), scheme_of(final(self)) == scheme_of(old(self)),
        path_of(final(self)) == path_of(old(self)), query_of(final(self)) == query_of(old(self)), fragment_of(final(self)) == fragment_of(old(self)) { unimplemented!() }
  }
}
use did_url_parser::DID as BaseDIDUrl;
use did_url_parser::{scheme_of, method_of, method_id_of, path_of, query_of, fragment_of};

pub enum Error {
  InvalidFragment,
  InvalidMethodId,
  InvalidMethodName,
  InvalidPath,
  InvalidQuery,
  InvalidScheme,
  Other(&'static str),
}
impl From<did_url_parser::Error> for Error { #[verifier::external_body] fn from(error: did_url_parser::Error) -> Self { unimplemented!() } }
pub struct CoreDID(pub BaseDIDUrl);

// ------------------------------ W3C DID syntax (did-core §3.1), written independently of the code ------------------------------
/// method-char = %x61-7A / DIGIT
pub open spec fn w3c_method_char(c: char) -> bool { ('a' <= c && c <= 'z') || ('0' <= c && c <= '9') }
/// idchar = ALPHA / DIGIT / "." / "-" / "_"   (":" separates idchar runs; pct-encoded handled by method_id_ok)
pub open spec fn w3c_id_char(c: char) -> bool {
  ('a' <= c && c <= 'z') || ('A' <= c && c <= 'Z') || ('0' <= c && c <= '9') || c == '.' || c == '-' || c == '_' || c == ':'
}
pub open spec fn method_name_ok(s: Seq<char>) -> bool { forall|i: int| 0 <= i < s.len() ==> w3c_method_char(#[trigger] s[i]) }
/// method-specific-id syntax incl. percent-encoding: ASSUMED contract of `valid_method_id` (char iterator clone/take/collect)
pub uninterp spec fn method_id_ok(s: Seq<char>) -> bool;
/// what C10 demands of a value of the plain DID type
pub open spec fn core_did_ok(d: &CoreDID) -> bool {
  &&& scheme_of(&d.0) == "did"@
  &&& method_name_ok(method_of(&d.0))
  &&& method_id_ok(method_id_of(&d.0))
  &&& path_of(&d.0).len() == 0 && query_of(&d.0) is None && fragment_of(&d.0) is None
}

pub(crate) const fn is_char_method_name(ch: char) -> (r: bool)
  ensures r == w3c_method_char(ch),
{
  matches!(ch, '0'..='9' | 'a'..='z')
}
pub(crate) const fn is_char_method_id(ch: char) -> (r: bool)
  ensures r == w3c_id_char(ch),
{
  matches!(ch, '0'..='9' | 'a'..='z' | 'A'..='Z' | '.' | '-' | '_' | ':')
}

/// `<CoreDID as DID>::SCHEME` = `did_url_parser::DID::SCHEME` = "did" (trait constant; ASSUMED value)
pub exec const CORE_DID_SCHEME: &'static str ensures CORE_DID_SCHEME@ == "did"@ { "did" }
impl CoreDID {

  pub fn valid_method_name(value: &str) -> (r: Result<(), Error>)
    ensures r is Ok <==> method_name_ok(value@),
  {
    if !value.chars().all(is_char_method_name) {
      return Err(Error::InvalidMethodName);
    }
    Ok(())
  }

  #[verifier::external_body]
  pub fn valid_method_id(value: &str) -> (r: Result<(), Error>)
    ensures r is Ok <==> method_id_ok(value@),
  { unimplemented!() }

  pub fn check_validity(did: &BaseDIDUrl) -> (r: Result<(), Error>)
    ensures r is Ok <==> (scheme_of(did) == "did"@ && method_name_ok(method_of(did)) && method_id_ok(method_id_of(did))
      && path_of(did).len() == 0 && query_of(did) is None && fragment_of(did) is None),
  {
    // Validate basic DID constraints.
    Self::valid_method_name(did.method())?;
    Self::valid_method_id(did.method_id())?;
    if did.scheme() != CORE_DID_SCHEME {
      return Err(Error::InvalidScheme);
    }

    // Ensure no DID Url segments are present.
    if !did.path().is_empty() || did.fragment().is_some() || did.query().is_some() {
      return Err(Error::InvalidMethodId);
    }

    Ok(())
  }

  pub fn parse(input: &str) -> (r: Result<Self, Error>)
    ensures r is Ok ==> core_did_ok(&r->Ok_0),
  {
    let base_did_url: BaseDIDUrl = BaseDIDUrl::parse_str(input).map_err(|x_eta| -> (r_eta: _) requires call_requires(Error::from, (x_eta,)) ensures call_ensures(Error::from, (x_eta,), r_eta) { Error::from(x_eta) })?;
    Self::try_from(base_did_url)
  }

  pub fn set_method_name(&mut self, value: &str) -> (r: Result<(), Error>)
    requires core_did_ok(old(self)),
    ensures
      core_did_ok(final(self)),
      r is Ok <==> method_name_ok(value@),
      r is Ok ==> method_of(&final(self).0) == value@,
      r is Err ==> final(self).0 == old(self).0,
  {
    Self::valid_method_id(value)?;
    self.0.set_method_str(value);
    Ok(())
  }

  pub fn set_method_id(&mut self, value: &str) -> (r: Result<(), Error>)
    requires core_did_ok(old(self)),
    ensures
      core_did_ok(final(self)),
      r is Ok <==> method_id_ok(value@),
      r is Ok ==> method_id_of(&final(self).0) == value@,
      r is Err ==> final(self).0 == old(self).0,
  {
    Self::valid_method_id(value)?;
    self.0.set_method_id_str(value);
    Ok(())
  }
}

impl vstd::std_specs::convert::TryFromSpecImpl<BaseDIDUrl> for CoreDID {
  open spec fn obeys_try_from_spec() -> bool { false }
  open spec fn try_from_spec(v: BaseDIDUrl) -> core::result::Result<Self, Error> { arbitrary() }
}
impl TryFrom<BaseDIDUrl> for CoreDID {
  type Error = Error;
  fn try_from(base_did_url: BaseDIDUrl) -> (r: Result<Self, Self::Error>)
    ensures r is Ok ==> core_did_ok(&r->Ok_0) && r->Ok_0.0 == base_did_url,
  {
    Self::check_validity(&base_did_url)?;
    Ok(Self(base_did_url))
  }
}

} // verus!
fn main() {}

