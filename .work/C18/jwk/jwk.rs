// Unit `jwk` — serves C18 (+ C05).
#![feature(allocator_api)]
use vstd::prelude::*;
verus! {

// ---- shared std prelude (assumed specifications of core/alloc items vstd does not cover) ----
pub mod vxstd {
use vstd::prelude::*;
/// Rust's `?` converts the error with `From::from`; vstd leaves `spec_from` uninterpreted.
pub broadcast proof fn axiom_question_mark_uses_from<F: From<E>, E>(e: E, r: F)
  ensures #[trigger] vstd::std_specs::control_flow::spec_from::<F, E>(e, r) ==> call_ensures(<F as From<E>>::from, (e,), r)
{ admit(); }
/// `str` values are determined by their characters (Verus compares string patterns by value, exec `==` by view).
pub broadcast proof fn axiom_str_ext(a: &str, b: &str)
  ensures #![trigger a@, b@] (a@ == b@) ==> a == b
{ admit(); }
/// the items an `IntoIterator` yields (uninterpreted; pinned down for slices below)
pub uninterp spec fn iter_items<T, I>(i: I) -> Seq<T>;
/// iterating a `&[T]` yields its elements in order
pub broadcast proof fn axiom_iter_items_slice<'a, T>(s: &'a [T])
  ensures #[trigger] iter_items::<T, &'a [T]>(s) == s@
{ admit(); }
/// `String == str` (also through references) compares the characters.
pub broadcast proof fn axiom_string_str_eq(a: &String, b: &str)
  ensures #![trigger a@, b@] <String as vstd::std_specs::cmp::PartialEqSpec<str>>::obeys_eq_spec()
    && <String as vstd::std_specs::cmp::PartialEqSpec<str>>::eq_spec(a, b) == (a@ == b@)
{ admit(); }
}
/// ASSUMED std spec: Option::or_else
pub assume_specification<T, F: FnOnce() -> Option<T>>[ Option::<T>::or_else ](o: Option<T>, f: F) -> (r: Option<T>)
  requires o is None ==> f.requires(()),
  ensures o is Some ==> r == o, o is None ==> f.ensures((), r);
/// ASSUMED std spec: Vec::extend from an iterator of references appends the items
pub assume_specification<'a, T: Copy + 'a, A: core::alloc::Allocator, I: IntoIterator<Item = &'a T>>[ <Vec<T, A> as Extend<&'a T>>::extend ](v: &mut Vec<T, A>, i: I)
  ensures final(v)@ == old(v)@ + vxstd::iter_items::<T, I>(i);
/// ASSUMED std spec: Option<Result<T,E>>::transpose
pub assume_specification<T, E>[ Option::<Result<T, E>>::transpose ](o: Option<Result<T, E>>) -> (r: Result<Option<T>, E>)
  ensures
    o is None ==> r == Ok::<Option<T>, E>(None),
    o is Some && o->Some_0 is Ok ==> r == Ok::<Option<T>, E>(Some(o->Some_0->Ok_0)),
    o is Some && o->Some_0 is Err ==> r == Err::<Option<T>, E>(o->Some_0->Err_0);
/// ASSUMED std spec: Vec<T> -> Box<[T]> keeps the elements
pub assume_specification<T, A: core::alloc::Allocator>[ <Box<[T], A> as From<Vec<T, A>>>::from ](v: Vec<T, A>) -> (r: Box<[T], A>)
  ensures r@ == v@;


// ---- foreign types (opaque) ----
#[verifier::external_body] pub struct Url { _p: () }
#[verifier::external_body] #[derive(Clone, Copy)] pub struct JwkUse { _p: () }
#[verifier::external_body] #[derive(Clone, Copy)] pub struct JwkOperation { _p: () }
pub mod serde_json { use vstd::prelude::*; #[verifier::external_body] pub struct Error { _p: () } }
pub mod identity_core { pub mod error { use vstd::prelude::*; #[verifier::external_body] pub struct Error { _p: () } } }
#[verifier::external_body] pub struct SignatureVerificationError { _p: () }
#[verifier::external_type_specification] #[verifier::external_body] pub struct ExUtf8Error(core::str::Utf8Error);
pub type Result<T, E = Error> = core::result::Result<T, E>;
pub enum Error {
  InvalidJson( serde_json::Error),
  InvalidBase64( identity_core::error::Error),
  InvalidUtf8( core::str::Utf8Error),
  InvalidClaim(&'static str),
  MissingClaim(&'static str),
  InvalidParam(&'static str),
  MissingParam(&'static str),
  InvalidContent(&'static str),
  KeyError(&'static str),
  JwsAlgorithmParsingError,
  SignatureVerificationError( SignatureVerificationError),
  MissingHeader(&'static str),
  ProtectedHeaderWithoutAlg,
}

#[derive(Clone, Copy)]
pub enum JwkType {
  Ec,
  Rsa,
  Oct,
  Okp,
}
pub enum JwkParams {
  Ec(JwkParamsEc),
  Rsa(JwkParamsRsa),
  Oct(JwkParamsOct),
  Okp(JwkParamsOkp),
}
pub struct JwkParamsEc {
  pub crv: String,
  pub x: String,
  pub y: String,
  pub d: Option<String>,
}
pub struct JwkParamsRsa {
  pub n: String,
  pub e: String,
  pub d: Option<String>,
  pub p: Option<String>,
  pub q: Option<String>,
  pub dp: Option<String>,
  pub dq: Option<String>,
  pub qi: Option<String>,
  pub oth: Option<Vec<JwkParamsRsaPrime>>,
}
pub struct JwkParamsRsaPrime {
  pub r: String,
  pub d: String,
  pub t: String,
}
pub struct JwkParamsOct {
  pub k: String,
}
pub struct JwkParamsOkp {
  pub crv: String,
  pub x: String,
  pub d: Option<String>,
}
pub struct Jwk {
  pub kty: JwkType,
  pub use_: Option<JwkUse>,
  pub key_ops: Option<Vec<JwkOperation>>,
  pub alg: Option<String>,
  pub kid: Option<String>,
  pub x5u: Option<Url>,
  pub x5c: Option<Vec<String>>,
  pub x5t: Option<String>,
  pub x5t_s256: Option<String>,
  pub params: JwkParams,
}

// ------------------------------ abstract view: private members, public members, family ------------------------------
pub open spec fn ec_no_private(p: &JwkParamsEc) -> bool { p.d is None }
pub open spec fn okp_no_private(p: &JwkParamsOkp) -> bool { p.d is None }
/// RSA: every one of the seven private members (RFC 7518 §6.3.2), `oth` included
pub open spec fn rsa_no_private(p: &JwkParamsRsa) -> bool {
  p.d is None && p.p is None && p.q is None && p.dp is None && p.dq is None && p.qi is None && p.oth is None
}
pub open spec fn params_no_private(p: &JwkParams) -> bool {
  match p {
    JwkParams::Ec(i) => ec_no_private(i),
    JwkParams::Rsa(i) => rsa_no_private(i),
    JwkParams::Okp(i) => okp_no_private(i),
    JwkParams::Oct(_) => false,   // a symmetric key is all private
  }
}
pub open spec fn params_family(p: &JwkParams) -> JwkType {
  match p { JwkParams::Ec(_) => JwkType::Ec, JwkParams::Rsa(_) => JwkType::Rsa, JwkParams::Oct(_) => JwkType::Oct, JwkParams::Okp(_) => JwkType::Okp }
}
pub open spec fn ec_same_public(a: &JwkParamsEc, b: &JwkParamsEc) -> bool { a.crv@ == b.crv@ && a.x@ == b.x@ && a.y@ == b.y@ }
pub open spec fn okp_same_public(a: &JwkParamsOkp, b: &JwkParamsOkp) -> bool { a.crv@ == b.crv@ && a.x@ == b.x@ }
pub open spec fn rsa_same_public(a: &JwkParamsRsa, b: &JwkParamsRsa) -> bool { a.n@ == b.n@ && a.e@ == b.e@ }
pub open spec fn params_same_public(a: &JwkParams, b: &JwkParams) -> bool {
  match (a, b) {
    (JwkParams::Ec(x), JwkParams::Ec(y)) => ec_same_public(x, y),
    (JwkParams::Rsa(x), JwkParams::Rsa(y)) => rsa_same_public(x, y),
    (JwkParams::Okp(x), JwkParams::Okp(y)) => okp_same_public(x, y),
    _ => false,
  }
}
/// the declared key type matches the family of parameters carried
pub open spec fn coherent(j: &Jwk) -> bool { j.kty == params_family(&j.params) }

impl JwkType {
  pub const fn name(self) -> (r: &'static str)
  {
    match self {
      Self::Ec => "EC",
      Self::Rsa => "RSA",
      Self::Oct => "oct",
      Self::Okp => "OKP",
    }
  }
}

impl JwkParamsEc {
  pub const fn new() -> (r: Self)
    ensures ec_no_private(&r),
  {
    Self {
      crv: String::new(),
      x: String::new(),
      y: String::new(),
      d: None,
    }
  }
  pub const fn kty(&self) -> (r: JwkType)
    ensures r == JwkType::Ec,
  {
    JwkType::Ec
  }
  pub fn to_public(&self) -> (r: Self)
    ensures ec_no_private(&r), ec_same_public(&r, self),
  {
    Self {
      crv: self.crv.clone(),
      x: self.x.clone(),
      y: self.y.clone(),
      d: None,
    }
  }
  pub fn is_public(&self) -> (r: bool)
    ensures r == ec_no_private(self),
  {
    self.d.is_none()
  }
  pub fn is_private(&self) -> (r: bool)
    ensures r == !ec_no_private(self),
  {
    self.d.is_some()
  }
}
impl JwkParamsRsa {
  pub const fn new() -> (r: Self)
    ensures rsa_no_private(&r),
  {
    Self {
      n: String::new(),
      e: String::new(),
      d: None,
      p: None,
      q: None,
      dp: None,
      dq: None,
      qi: None,
      oth: None,
    }
  }
  pub const fn kty(&self) -> (r: JwkType)
    ensures r == JwkType::Rsa,
  {
    JwkType::Rsa
  }
  pub fn to_public(&self) -> (r: Self)
    ensures rsa_no_private(&r), rsa_same_public(&r, self),
  {
    Self {
      n: self.n.clone(),
      e: self.e.clone(),
      d: None,
      p: None,
      q: None,
      dp: None,
      dq: None,
      qi: None,
      oth: None,
    }
  }
  pub fn is_public(&self) -> (r: bool)
    ensures r == rsa_no_private(self),
  {
    self.d.is_none()
      && self.p.is_none()
      && self.q.is_none()
      && self.dp.is_none()
      && self.dq.is_none()
      && self.qi.is_none()
      && self.oth.is_none()
  }
  pub fn is_private(&self) -> (r: bool)
    ensures r ==> !rsa_no_private(self),
  {
    self.d.is_some()
      && self.p.is_some()
      && self.q.is_some()
      && self.dp.is_some()
      && self.dq.is_some()
      && self.qi.is_some()
  }
}
impl JwkParamsOct {
  pub const fn new() -> (r: Self)
  {
    Self { k: String::new() }
  }
  pub const fn kty(&self) -> (r: JwkType)
    ensures r == JwkType::Oct,
  {
    JwkType::Oct
  }
  pub fn is_public(&self) -> (r: bool)
    ensures r == false,
  {
    false
  }
}
impl JwkParamsOkp {
  pub const fn new() -> (r: Self)
    ensures okp_no_private(&r),
  {
    Self {
      crv: String::new(),
      x: String::new(),
      d: None,
    }
  }
  pub const fn kty(&self) -> (r: JwkType)
    ensures r == JwkType::Okp,
  {
    JwkType::Okp
  }
  pub fn to_public(&self) -> (r: Self)
    ensures okp_no_private(&r), okp_same_public(&r, self),
  {
    Self {
      crv: self.crv.clone(),
      x: self.x.clone(),
      d: None,
    }
  }
  pub fn is_public(&self) -> (r: bool)
    ensures r == okp_no_private(self),
  {
    self.d.is_none()
  }
  pub fn is_private(&self) -> (r: bool)
    ensures r == !okp_no_private(self),
  {
    self.d.is_some()
  }
}

impl JwkParams {
  pub const fn new(kty: JwkType) -> (r: Self)
    ensures params_family(&r) == kty,
  {
    match kty {
      JwkType::Ec => Self::Ec(JwkParamsEc::new()),
      JwkType::Rsa => Self::Rsa(JwkParamsRsa::new()),
      JwkType::Oct => Self::Oct(JwkParamsOct::new()),
      JwkType::Okp => Self::Okp(JwkParamsOkp::new()),
    }
  }
  pub const fn kty(&self) -> (r: JwkType)
    ensures r == params_family(self),
  {
    match self {
      Self::Ec(inner) => inner.kty(),
      Self::Rsa(inner) => inner.kty(),
      Self::Oct(inner) => inner.kty(),
      Self::Okp(inner) => inner.kty(),
    }
  }
  pub fn to_public(&self) -> (r: Option<Self>)
    ensures
      // a symmetric key has no public projection; every asymmetric key has one
      r is None <==> self is Oct,
      r is Some ==> params_no_private(&r->Some_0) && params_family(&r->Some_0) == params_family(self)
        && params_same_public(&r->Some_0, self),
  {
    match self {
      Self::Okp(inner) => Some(Self::Okp(inner.to_public())),
      Self::Ec(inner) => Some(Self::Ec(inner.to_public())),
      Self::Rsa(inner) => Some(Self::Rsa(inner.to_public())),
      Self::Oct(_) => None,
    }
  }
  pub fn is_public(&self) -> (r: bool)
    ensures r == params_no_private(self),
  {
    match self {
      Self::Okp(value) => value.is_public(),
      Self::Ec(value) => value.is_public(),
      Self::Rsa(value) => value.is_public(),
      Self::Oct(value) => value.is_public(),
    }
  }
}

/// the projection is idempotent (on the abstract view: private members, family, public members)
pub proof fn lemma_to_public_idempotent(p: &JwkParams, q: &JwkParams, q2: &JwkParams)
  requires
    params_no_private(q) && params_family(q) == params_family(p) && params_same_public(q, p),     // q = to_public(p)
    params_no_private(q2) && params_family(q2) == params_family(q) && params_same_public(q2, q),  // q2 = to_public(q)
  ensures params_no_private(q2) && params_family(q2) == params_family(p) && params_same_public(q2, p) && params_same_public(q2, q),
{}

// ------------------------------------------------ Jwk ------------------------------------------------
/// the optional members that `to_public` carries over (assumed setters: generic `impl Into<..>` plumbing)
impl Jwk {
  #[verifier::external_body]
  pub fn set_use(&mut self, value: JwkUse)
    ensures final(self).kty == old(self).kty, final(self).params == old(self).params { unimplemented!() }
  #[verifier::external_body]
  pub fn set_alg(&mut self, value: &str)
    ensures final(self).kty == old(self).kty, final(self).params == old(self).params { unimplemented!() }
  #[verifier::external_body]
  pub fn set_kid(&mut self, value: &str)
    ensures final(self).kty == old(self).kty, final(self).params == old(self).params { unimplemented!() }
  #[verifier::external_body]
  pub fn use_(&self) -> Option<JwkUse> { unimplemented!() }
  #[verifier::external_body]
  pub fn alg(&self) -> Option<&str> { unimplemented!() }
  #[verifier::external_body]
  pub fn kid(&self) -> Option<&str> { unimplemented!() }
  #[verifier::external_body]
  pub fn key_ops(&self) -> Option<&[JwkOperation]> { unimplemented!() }

  pub const fn new(kty: JwkType) -> (r: Self)
    ensures coherent(&r), r.kty == kty,
  {
    Self {
      kty,
      use_: None,
      key_ops: None,
      alg: None,
      kid: None,
      x5u: None,
      x5c: None,
      x5t: None,
      x5t_s256: None,
      params: JwkParams::new(kty),
    }
  }
  pub fn from_params(params: JwkParams) -> (r: Self)
    ensures coherent(&r), r.params == params,
  {
    let params: JwkParams = params;

    Self {
      kty: params.kty(),
      use_: None,
      key_ops: None,
      alg: None,
      kid: None,
      x5u: None,
      x5c: None,
      x5t: None,
      x5t_s256: None,
      params,
    }
  }
  pub fn kty(&self) -> (r: JwkType)
    ensures r == self.kty,
  {
    self.kty
  }
  pub fn set_kty(&mut self, value: JwkType)
    requires coherent(old(self)),
    ensures coherent(final(self)), final(self).kty == value,
  {
    self.kty = value;
    self.params = JwkParams::new(self.kty);
  }
  pub fn params(&self) -> (r: &JwkParams)
    ensures r == &self.params,
  {
    &self.params
  }
  pub fn set_params(&mut self, params: JwkParams) -> (r: Result<()>)
    requires coherent(old(self)),
    ensures
      coherent(final(self)), final(self).kty == old(self).kty,
      r is Ok <==> params_family(&params) == old(self).kty,
      r is Ok ==> final(self).params == params,
      r is Err ==> final(self).params == old(self).params,
  {
    match (self.kty, params) {
      (JwkType::Ec, value @ JwkParams::Ec(_)) => {
        self.set_params_unchecked(value);
      }
      (JwkType::Rsa, value @ JwkParams::Rsa(_)) => {
        self.set_params_unchecked(value);
      }
      (JwkType::Oct, value @ JwkParams::Oct(_)) => {
        self.set_params_unchecked(value);
      }
      (JwkType::Okp, value @ JwkParams::Okp(_)) => {
        self.set_params_unchecked(value);
      }
      (_, _) => {
        return Err(Error::InvalidParam("`params` type does not match `kty`"));
      }
    }
    Ok(())
  }
  pub fn set_params_unchecked(&mut self, value: JwkParams)
    ensures final(self).params == value, final(self).kty == old(self).kty,
  {
    self.params = value;
  }
  pub fn is_public(&self) -> (r: bool)
    ensures r == params_no_private(&self.params),
  {
    self.params.is_public()
  }
  pub fn is_private(&self) -> (r: bool)
    ensures r ==> !params_no_private(&self.params),
  {
    match self.params() {
      JwkParams::Ec(params) => params.is_private(),
      JwkParams::Rsa(params) => params.is_private(),
      JwkParams::Oct(_) => true,
      JwkParams::Okp(params) => params.is_private(),
    }
  }
  pub fn to_public(&self) -> (r: Option<Jwk>)
    ensures
      r is None <==> self.params is Oct,
      r is Some ==> coherent(&r->Some_0) && params_no_private(&r->Some_0.params)
        && params_family(&r->Some_0.params) == params_family(&self.params) && params_same_public(&r->Some_0.params, &self.params),
  {
    let mut public: Jwk = Jwk::from_params(self.params().to_public()?);

    if let Some(value) = self.use_() {
      public.set_use(value);
    }

    if let Some(value) = self.key_ops() {
      public.set_key_ops_inverted(value);
    }

    if let Some(value) = self.alg() {
      public.set_alg(value);
    }

    if let Some(value) = self.kid() {
      public.set_kid(value);
    }

    Some(public)
  }
  /// stands for `set_key_ops(value.iter().map(|op| op.invert()))` (iterator adapters are outside the verifier's reach): ASSUMED frame
  #[verifier::external_body]
  pub fn set_key_ops_inverted(&mut self, value: &[JwkOperation])
    ensures final(self).kty == old(self).kty, final(self).params == old(self).params { unimplemented!() }
}

// ------------------------------------ verification-method constructors ------------------------------------
pub mod vm {
use vstd::prelude::*;
use super::{Jwk, params_no_private};
#[verifier::external_body] pub struct DIDUrl { _p: () }
#[verifier::external_body] pub struct CoreDID { _p: () }
#[verifier::external_body] pub struct MethodType { _p: () }
#[verifier::external_body] pub struct Object { _p: () }
#[verifier::external_body] pub struct CustomMethodData { _p: () }
pub mod identity_did { use vstd::prelude::*; #[verifier::external_body] pub struct Error { _p: () } }
pub uninterp spec fn url_fragment(u: &DIDUrl) -> Option<Seq<char>>;
impl DIDUrl {
  #[verifier::external_body]
  pub fn fragment(&self) -> (r: Option<&str>) ensures r is Some <==> url_fragment(self) is Some, r is Some ==> r->Some_0@ == url_fragment(self)->Some_0 { unimplemented!() }
}

pub type Result<T, E = Error> = ::core::result::Result<T, E>;
pub enum Error {
  InvalidMethod(&'static str),
  DIDUrlConstructionError( identity_did::Error),
  MissingIdFragment,
  UnknownMethodScope,
  InvalidKeyDataBase58,
  InvalidKeyDataMultibase,
  InvalidMethodDataTransformation(&'static str),
  PrivateKeyMaterialExposed,
  NotPublicKeyJwk,
}
pub struct MethodBuilder {
  pub id: Option<DIDUrl>,
  pub controller: Option<CoreDID>,
  pub type_: Option<MethodType>,
  pub data: Option<MethodData>,
  pub properties: Object,
}
pub enum MethodData {
  PublicKeyMultibase(String),
  PublicKeyBase58(String),
  PublicKeyJwk(Jwk),
  Custom(CustomMethodData),
}
pub struct VerificationMethod {
  pub id: DIDUrl,
  pub controller: CoreDID,
  pub type_: MethodType,
  pub data: MethodData,
  pub properties: Object,
}

/// "never contain private key members": a method whose material is a JWK carries a public-only JWK
pub open spec fn method_jwk_public(m: &VerificationMethod) -> bool {
  m.data is PublicKeyJwk ==> params_no_private(&m.data->PublicKeyJwk_0.params)
}

impl MethodBuilder {
  #[verifier::external_body]
  pub fn data(self, value: MethodData) -> (r: Self)
    ensures r.data == Some(value), r.id == self.id, r.controller == self.controller, r.type_ == self.type_, r.properties == self.properties,
  { unimplemented!() }
  pub fn build(self) -> (r: Result<VerificationMethod>)
    ensures r is Ok ==> method_jwk_public(&r->Ok_0),
  {
    VerificationMethod::from_builder(self)
  }
}
impl VerificationMethod {
  pub fn from_builder(builder: MethodBuilder) -> (r: Result<Self>)
    ensures
      r is Ok ==> method_jwk_public(&r->Ok_0) && builder.data == Some(r->Ok_0.data) && builder.id == Some(r->Ok_0.id),
      (builder.data is Some && builder.data->Some_0 is PublicKeyJwk && !params_no_private(&builder.data->Some_0->PublicKeyJwk_0.params))
        ==> r matches Err(Error::PrivateKeyMaterialExposed) || r matches Err(Error::InvalidMethod(_)),
  {
    let id: DIDUrl = builder.id.ok_or(Error::InvalidMethod("missing id"))?;
    if id.fragment().unwrap_or_default().is_empty() {
      return Err(Error::InvalidMethod("empty id fragment"));
    }

    if let Some(MethodData::PublicKeyJwk(ref jwk)) = builder.data {
      if jwk.is_private() {
        return Err(Error::PrivateKeyMaterialExposed);
      }
    };

    Ok(VerificationMethod {
      id,
      controller: builder.controller.ok_or(Error::InvalidMethod("missing controller"))?,
      type_: builder.type_.ok_or(Error::InvalidMethod("missing type"))?,
      data: builder.data.ok_or(Error::InvalidMethod("missing data"))?,
      properties: builder.properties,
    })
  }
}
} // mod vm

} // verus!
fn main() {}

