// Unit `jwt_claims` — serves C07 (+ the consistency clauses of C02 / C03, + C05).
// Verified at the instantiation T = Object (credential properties) and CRED = Jwt (R7): the repository's
// generic bounds mention serde traits that mean nothing to the verifier.
#![feature(allocator_api)]
#![feature(sized_hierarchy)]
#![verifier::allow(undeclared_external_trait)]
use vstd::prelude::*;
use std::borrow::Cow;
verus! {

// ---- shared std prelude (assumed specifications of core/alloc items vstd does not cover) ----
pub mod vxstd {
use vstd::prelude::*;
/// Rust's `?` converts the error with `From::from`; vstd leaves `spec_from` uninterpreted.
pub broadcast proof fn axiom_question_mark_uses_from<F: From<E>, E>(e: E, r: F)
  ensures #[trigger] vstd::std_specs::control_flow::spec_from::<F, E>(e, r) ==> call_ensures(<F as From<E>>::from, (e,), r)
{ admit(); }
/// `str` values are determined by their characters (Verus compares string patterns by value, exec `==` by view).
pub broadcast proof fn axiom_str_ext(a: &str, b: &str)
  ensures #![trigger a@, b@] (a@ == b@) ==> a == b
{ admit(); }
/// the items an `IntoIterator` yields (uninterpreted; pinned down for slices below)
pub uninterp spec fn iter_items<T, I>(i: I) -> Seq<T>;
/// iterating a `&[T]` yields its elements in order
pub broadcast proof fn axiom_iter_items_slice<'a, T>(s: &'a [T])
  ensures #[trigger] iter_items::<T, &'a [T]>(s) == s@
{ admit(); }
/// `String == str` (also through references) compares the characters.
pub broadcast proof fn axiom_string_str_eq(a: &String, b: &str)
  ensures #![trigger a@, b@] <String as vstd::std_specs::cmp::PartialEqSpec<str>>::obeys_eq_spec()
    && <String as vstd::std_specs::cmp::PartialEqSpec<str>>::eq_spec(a, b) == (a@ == b@)
{ admit(); }
}
/// ASSUMED std spec: Option::or_else
pub assume_specification<T, F: FnOnce() -> Option<T>>[ Option::<T>::or_else ](o: Option<T>, f: F) -> (r: Option<T>)
  requires o is None ==> f.requires(()),
  ensures o is Some ==> r == o, o is None ==> f.ensures((), r);
/// ASSUMED std spec: Vec::extend from an iterator of references appends the items
pub assume_specification<'a, T: Copy + 'a, A: core::alloc::Allocator, I: IntoIterator<Item = &'a T>>[ <Vec<T, A> as Extend<&'a T>>::extend ](v: &mut Vec<T, A>, i: I)
  ensures final(v)@ == old(v)@ + vxstd::iter_items::<T, I>(i);
/// ASSUMED std spec: Option<Result<T,E>>::transpose
pub assume_specification<T, E>[ Option::<Result<T, E>>::transpose ](o: Option<Result<T, E>>) -> (r: Result<Option<T>, E>)
  ensures
    o is None ==> r == Ok::<Option<T>, E>(None),
    o is Some && o->Some_0 is Ok ==> r == Ok::<Option<T>, E>(Some(o->Some_0->Ok_0)),
    o is Some && o->Some_0 is Err ==> r == Err::<Option<T>, E>(o->Some_0->Err_0);
/// ASSUMED std spec: Vec<T> -> Box<[T]> keeps the elements
pub assume_specification<T, A: core::alloc::Allocator>[ <Box<[T], A> as From<Vec<T, A>>>::from ](v: Vec<T, A>) -> (r: Box<[T], A>)
  ensures r@ == v@;
/// ASSUMED std spec: Option::filter (facts are stated in the direction closures support: f.ensures(args, b) ==> clause)
pub assume_specification<T, P: FnOnce(&T) -> bool>[ Option::<T>::filter ](o: Option<T>, p: P) -> (r: Option<T>)
  requires o is Some ==> p.requires((&o->Some_0,)),
  ensures
    o is None ==> r is None,
    o is Some ==> (r == o && p.ensures((&o->Some_0,), true)) || (r is None && p.ensures((&o->Some_0,), false));
/// ASSUMED std spec: Option::as_deref
pub assume_specification<T>[ Option::<T>::as_deref ](o: &Option<T>) -> (r: Option<&<T as core::ops::Deref>::Target>)
  where T: core::ops::Deref
  ensures r is Some <==> o is Some,
    o is Some ==> call_ensures(<T as core::ops::Deref>::deref, (&o->Some_0,), r->Some_0);
/// ASSUMED std spec: bool::then_some
pub assume_specification<T>[ bool::then_some ](b: bool, t: T) -> (r: Option<T>)
  ensures r == (if b { Some(t) } else { None::<T> });

// ---- shared credential-crate prelude: foreign types (opaque) + the repository's Credential / Subject / Issuer / Error items ----
pub mod ctypes {
use vstd::prelude::*;
/// `identity_core::common::Url`: opaque; ASSUMED: `==` is equality of the underlying string (structural)
#[verifier::external_body] pub struct Url { _p: () }
impl vstd::std_specs::cmp::PartialEqSpecImpl for Url {
  open spec fn obeys_eq_spec() -> bool { true }
  open spec fn eq_spec(&self, other: &Url) -> bool { *self == *other }
}
impl PartialEq for Url { #[verifier::external_body] fn eq(&self, other: &Self) -> (r: bool) ensures r == (*self == *other) { unimplemented!() } }
impl Eq for Url {}
/// `identity_core::common::Timestamp`: opaque with its unix-seconds view; contracts as proved in unit `timestamp` (C13)
#[verifier::external_body] #[derive(Clone, Copy)] pub struct Timestamp { _p: () }
pub uninterp spec fn ts_unix(t: Timestamp) -> int;
pub open spec fn in_window(u: int) -> bool { -62167219200 <= u <= 253402300799 }
/// ASSUMED (type invariant proved in unit `timestamp`): every Timestamp lies in the window, and two timestamps with equal unix seconds are equal
pub broadcast proof fn axiom_ts_window(t: Timestamp) ensures in_window(#[trigger] ts_unix(t)) { admit(); }
pub broadcast proof fn axiom_ts_ext(a: Timestamp, b: Timestamp) ensures #![trigger ts_unix(a), ts_unix(b)] (ts_unix(a) == ts_unix(b)) ==> a == b { admit(); }
#[verifier::external_body] pub struct TsError { _p: () }
impl Timestamp {
  #[verifier::external_body] pub fn to_unix(&self) -> (r: i64) ensures r == ts_unix(*self) { unimplemented!() }
  #[verifier::external_body] pub fn from_unix(seconds: i64) -> (r: core::result::Result<Timestamp, TsError>)
    ensures r is Ok <==> in_window(seconds as int), r is Ok ==> ts_unix(r->Ok_0) == seconds { unimplemented!() }
}
impl vstd::std_specs::cmp::PartialEqSpecImpl for Timestamp {
  open spec fn obeys_eq_spec() -> bool { true }
  open spec fn eq_spec(&self, other: &Timestamp) -> bool { *self == *other }
}
impl PartialEq for Timestamp { #[verifier::external_body] fn eq(&self, other: &Self) -> (r: bool) ensures r == (*self == *other) { unimplemented!() } }
#[verifier::external_body] pub struct Object { _p: () }
#[verifier::external_body] pub struct Context { _p: () }
#[verifier::external_body] pub struct IssuerData { _p: () }
#[verifier::external_body] pub struct Status { _p: () }
#[verifier::external_body] pub struct Schema { _p: () }
#[verifier::external_body] pub struct RefreshService { _p: () }
#[verifier::external_body] pub struct Policy { _p: () }
#[verifier::external_body] pub struct Evidence { _p: () }
#[verifier::external_body] pub struct Proof { _p: () }
#[verifier::external_body] pub struct Jwt { _p: () }
#[verifier::external_body] pub struct BoxedError { _p: () }
#[verifier::external_body] pub struct SdJwtVcError { _p: () }
// derived Clone on the opaque types: ASSUMED structural
impl Clone for Url { #[verifier::external_body] fn clone(&self) -> (r: Self) ensures r == *self { unimplemented!() } }
impl Clone for Object { #[verifier::external_body] fn clone(&self) -> (r: Self) ensures r == *self { unimplemented!() } }
impl Clone for Context { #[verifier::external_body] fn clone(&self) -> (r: Self) ensures r == *self { unimplemented!() } }
impl Clone for IssuerData { #[verifier::external_body] fn clone(&self) -> (r: Self) ensures r == *self { unimplemented!() } }
impl Clone for Status { #[verifier::external_body] fn clone(&self) -> (r: Self) ensures r == *self { unimplemented!() } }
impl Clone for Schema { #[verifier::external_body] fn clone(&self) -> (r: Self) ensures r == *self { unimplemented!() } }
impl Clone for RefreshService { #[verifier::external_body] fn clone(&self) -> (r: Self) ensures r == *self { unimplemented!() } }
impl Clone for Policy { #[verifier::external_body] fn clone(&self) -> (r: Self) ensures r == *self { unimplemented!() } }
impl Clone for Evidence { #[verifier::external_body] fn clone(&self) -> (r: Self) ensures r == *self { unimplemented!() } }
impl Clone for Proof { #[verifier::external_body] fn clone(&self) -> (r: Self) ensures r == *self { unimplemented!() } }
impl Clone for Jwt { #[verifier::external_body] fn clone(&self) -> (r: Self) ensures r == *self { unimplemented!() } }
/// `identity_core::common::OneOrMany<T>` (its own functions are under contract in unit `ordered_set`)
#[derive(Clone)] pub enum OneOrMany<T> { One(T), Many(Vec<T>) }
}
pub use ctypes::*;

pub type Result<T, E = Error> = ::core::result::Result<T, E>;
pub enum Error {
  MissingBaseContext,
  MissingBaseType,
  MissingIssuer,
  MissingSubject,
  MissingExpirationDate,
  MissingOrigin,
  InvalidSubject,
  InvalidStatus(String),
  DomainLinkageError( BoxedError),
  LinkedVerifiablePresentationError( BoxedError),
  MoreThanOneSubjectInJwt,
  InconsistentCredentialJwtClaims(&'static str),
  EmptyVerifiableCredentialArray,
  InconsistentPresentationJwtClaims(&'static str),
  TimestampConversionError,
  JwtClaimsSetSerializationError( BoxedError),
  JwtClaimsSetDeserializationError( BoxedError),
  JptClaimsSetDeserializationError( BoxedError),
  SelectiveDisclosureError,
  SdJwtVc( SdJwtVcError),
}
#[derive(Clone)]
pub enum Issuer {
  Url(Url),
  Obj(IssuerData),
}
#[derive(Clone)]
pub struct Subject {
  pub id: Option<Url>,
  pub properties: Object,
}
#[derive(Clone)]
pub struct Credential {
  pub context: OneOrMany<Context>,
  pub id: Option<Url>,
  pub types: OneOrMany<String>,
  pub credential_subject: OneOrMany<Subject>,
  pub issuer: Issuer,
  pub issuance_date: Timestamp,
  pub expiration_date: Option<Timestamp>,
  pub credential_status: Option<Status>,
  pub credential_schema: OneOrMany<Schema>,
  pub refresh_service: OneOrMany<RefreshService>,
  pub terms_of_use: OneOrMany<Policy>,
  pub evidence: OneOrMany<Evidence>,
  pub non_transferable: Option<bool>,
  pub properties: Object,
  pub proof: Option<Proof>,
}
pub uninterp spec fn issuer_data_id(o: &IssuerData) -> &Url;
pub open spec fn issuer_url_spec(i: &Issuer) -> &Url { match i { Issuer::Url(u) => u, Issuer::Obj(o) => issuer_data_id(o) } }
impl IssuerData { #[verifier::external_body] pub fn id_ref(&self) -> (r: &Url) ensures r == issuer_data_id(self) { unimplemented!() } }
impl Issuer {
  pub fn url(&self) -> (r: &Url)
    ensures r == issuer_url_spec(self),
  {
    match self {
      Self::Url(url) => url,
      Self::Obj(obj) => obj.id_ref(),
    }
  }
}
/// `Issuer == Issuer` (derived PartialEq): ASSUMED structural
impl vstd::std_specs::cmp::PartialEqSpecImpl for Issuer {
  open spec fn obeys_eq_spec() -> bool { true }
  open spec fn eq_spec(&self, other: &Issuer) -> bool { *self == *other }
}
impl PartialEq for Issuer { #[verifier::external_body] fn eq(&self, other: &Self) -> (r: bool) ensures r == (*self == *other) { unimplemented!() } }

// ---- AsRef as an external trait (needs #![feature(sized_hierarchy)] in the unit) ----
#[verifier::external_trait_specification]
pub trait ExAsRef<T: core::marker::PointeeSized>: core::marker::PointeeSized {
  type ExternalTraitSpecificationFor: AsRef<T> + core::marker::PointeeSized;
  fn as_ref(&self) -> &T;
}
/// ASSUMED std spec: the blanket `impl AsRef<U> for &T` forwards to T
pub assume_specification<'a, 'b, T: core::marker::PointeeSized + AsRef<U>, U: core::marker::PointeeSized>[ <&'a T as AsRef<U>>::as_ref ](s: &'b &'a T) -> (r: &'b U)
  ensures call_ensures(<T as AsRef<U>>::as_ref, (*s,), r);


#[derive(Clone, Copy)]
pub struct IssuanceDateClaims {
  pub iat: Option<i64>,
  pub nbf: Option<i64>,
}

pub mod fns1 { use vstd::prelude::*; use std::borrow::Cow; use super::*;
broadcast use {ctypes::axiom_ts_window, ctypes::axiom_ts_ext};
impl IssuanceDateClaims {
  pub(crate) fn new(issuance_date: Timestamp) -> (r: Self)
    ensures r.iat is None, r.nbf == Some(ts_unix(issuance_date) as i64),
  {
    Self {
      iat: None,
      nbf: Some(issuance_date.to_unix()),
    }
  }
  pub(crate) fn to_issuance_date(self) -> (r: Result<Timestamp>)
    ensures
      // nbf wins over iat; a date outside years 0000-9999 is rejected, never silently replaced
      self.nbf is Some ==> (r is Ok <==> in_window(self.nbf->Some_0 as int)) && (r is Ok ==> ts_unix(r->Ok_0) == self.nbf->Some_0),
      self.nbf is None && self.iat is Some ==> (r is Ok <==> in_window(self.iat->Some_0 as int)) && (r is Ok ==> ts_unix(r->Ok_0) == self.iat->Some_0),
      self.nbf is None && self.iat is None ==> r is Err,
  {
    if let Some(timestamp) = self
      .nbf
      .map(|x_eta| -> (r_eta: _) requires call_requires(Timestamp::from_unix, (x_eta,)) ensures call_ensures(Timestamp::from_unix, (x_eta,), r_eta) { Timestamp::from_unix(x_eta) })
      .transpose()
      .map_err(|_unused| Error::TimestampConversionError)?
    {
      Ok(timestamp)
    } else {
      Timestamp::from_unix(self.iat.ok_or(Error::TimestampConversionError)?)
        .map_err(|_unused| Error::TimestampConversionError)
    }
  }
}
} // mod fns1

pub struct InnerCredentialSubject<'credential> {
  pub id: Option<Url>,
  pub properties: Cow<'credential, Object>,
}
pub struct InnerCredential<'credential> {
  pub context: Cow<'credential, OneOrMany<Context>>,
  pub id: Option<Url>,
  pub types: Cow<'credential, OneOrMany<String>>,
  pub issuer: Option<Issuer>,
  pub credential_subject: InnerCredentialSubject<'credential>,
  pub issuance_date: Option<Timestamp>,
  pub expiration_date: Option<Timestamp>,
  pub credential_status: Option<Cow<'credential, Status>>,
  pub credential_schema: Cow<'credential, OneOrMany<Schema>>,
  pub refresh_service: Cow<'credential, OneOrMany<RefreshService>>,
  pub terms_of_use: Cow<'credential, OneOrMany<Policy>>,
  pub evidence: Cow<'credential, OneOrMany<Evidence>>,
  pub non_transferable: Option<bool>,
  pub properties: Cow<'credential, Object>,
  pub proof: Option<Cow<'credential, Proof>>,
}
pub struct CredentialJwtClaims<'credential> {
  pub exp: Option<i64>,
  pub iss: Cow<'credential, Issuer>,
  pub issuance_date: IssuanceDateClaims,
  pub jti: Option<Cow<'credential, Url>>,
  pub sub: Option<Cow<'credential, Url>>,
  pub vc: InnerCredential<'credential>,
  pub custom: Option<Object>,
}

/// the value a Cow stands for
pub open spec fn cow_issuer(c: Cow<'_, Issuer>) -> Issuer { match c { Cow::Borrowed(b) => *b, Cow::Owned(o) => o } }
pub open spec fn cow_url(c: Cow<'_, Url>) -> Url { match c { Cow::Borrowed(b) => *b, Cow::Owned(o) => o } }
/// ASSUMED: Cow::as_ref yields the value the Cow stands for
pub uninterp spec fn cow_ref<'a, 'b, T: ?Sized + ToOwned>(c: &'b Cow<'a, T>) -> &'b T;
pub assume_specification<'a, 'b, T: ?Sized + ToOwned>[ <Cow<'a, T> as AsRef<T>>::as_ref ](c: &'b Cow<'a, T>) -> (r: &'b T) ensures r == cow_ref(c);
pub assume_specification<'a, 'b, T: ?Sized + ToOwned>[ <Cow<'a, T> as core::ops::Deref>::deref ](c: &'b Cow<'a, T>) -> (r: &'b T) ensures r == cow_ref(c);
/// ASSUMED: Cow::into_owned yields the value the Cow stands for (a clone of the borrowed value)
pub uninterp spec fn cow_owned<'a, T: ?Sized + ToOwned>(c: Cow<'a, T>) -> T::Owned;
pub assume_specification<'a, T: ?Sized + ToOwned>[ Cow::<'a, T>::into_owned ](c: Cow<'a, T>) -> (r: T::Owned) ensures r == cow_owned(c);
pub broadcast proof fn axiom_cow_owned_issuer(c: Cow<'_, Issuer>) ensures #[trigger] cow_owned(c) == cow_issuer(c) { admit(); }
pub broadcast proof fn axiom_cow_owned_url(c: Cow<'_, Url>) ensures #[trigger] cow_owned(c) == cow_url(c) { admit(); }
pub broadcast proof fn axiom_cow_ref_issuer(c: &Cow<'_, Issuer>) ensures *(#[trigger] cow_ref(c)) == cow_issuer(*c) { admit(); }
pub broadcast proof fn axiom_cow_ref_url(c: &Cow<'_, Url>) ensures *(#[trigger] cow_ref(c)) == cow_url(*c) { admit(); }

/// C07/C02: a value repeated inside `vc` must agree with its registered claim (absent inside `vc` is fine)
pub open spec fn cred_claims_consistent(c: &CredentialJwtClaims<'_>) -> bool {
  &&& (c.vc.issuer is Some ==> c.vc.issuer->Some_0 == cow_issuer(c.iss))
  &&& (c.vc.issuance_date is Some ==> issuance_unix(c.issuance_date) is Some && ts_unix(c.vc.issuance_date->Some_0) == issuance_unix(c.issuance_date)->Some_0)
  &&& (c.vc.expiration_date is Some ==> c.exp is Some && c.exp->Some_0 == ts_unix(c.vc.expiration_date->Some_0))
  &&& (c.vc.id is Some ==> c.jti is Some && cow_url(c.jti->Some_0) == c.vc.id->Some_0)
  &&& (c.vc.credential_subject.id is Some ==> c.sub is Some && cow_url(c.sub->Some_0) == c.vc.credential_subject.id->Some_0)
}
/// the issuance instant a claims set denotes: nbf, else iat; None if absent or outside years 0000-9999
pub open spec fn issuance_unix(d: IssuanceDateClaims) -> Option<int> {
  if d.nbf is Some { if in_window(d.nbf->Some_0 as int) { Some(d.nbf->Some_0 as int) } else { None } }
  else if d.iat is Some { if in_window(d.iat->Some_0 as int) { Some(d.iat->Some_0 as int) } else { None } }
  else { None }
}

pub mod fns2 { use vstd::prelude::*; use std::borrow::Cow; use super::*;
broadcast use {ctypes::axiom_ts_window, ctypes::axiom_ts_ext, axiom_cow_ref_issuer, axiom_cow_ref_url};
impl<'credential> CredentialJwtClaims<'credential> {
  pub fn check_consistency(&self) -> (r: Result<()>)
    ensures r is Ok <==> (issuance_unix(self.issuance_date) is Some && cred_claims_consistent(self)),
  {
    // Check consistency of issuer.
    let issuer_from_claims: &Issuer = self.iss.as_ref();
    if !self
      .vc
      .issuer
      .as_ref()
      .map(|value: &Issuer| -> (b: bool) ensures b == (*value == *issuer_from_claims) { value == issuer_from_claims })
      .unwrap_or(true)
    {
      return Err(Error::InconsistentCredentialJwtClaims("inconsistent issuer"));
    };

    // Check consistency of issuanceDate
    let issuance_date_from_claims = self.issuance_date.to_issuance_date()?;
    if !self
      .vc
      .issuance_date
      .map(|value: Timestamp| -> (b: bool) ensures b == (value == issuance_date_from_claims) { value == issuance_date_from_claims })
      .unwrap_or(true)
    {
      return Err(Error::InconsistentCredentialJwtClaims("inconsistent issuanceDate"));
    };

    // Check consistency of expirationDate
    if !self
      .vc
      .expiration_date
      .map(|value: Timestamp| -> (b: bool) ensures b == (self.exp is Some && self.exp->Some_0 == ts_unix(value)) { self.exp.filter(|exp: &i64| -> (b: bool) ensures b == (*exp == ts_unix(value)) { *exp == value.to_unix() }).is_some() })
      .unwrap_or(true)
    {
      return Err(Error::InconsistentCredentialJwtClaims(
        "inconsistent credential expirationDate",
      ));
    };

    // Check consistency of id
    if !self
      .vc
      .id
      .as_ref()
      .map(|value: &Url| -> (b: bool) ensures b == (self.jti is Some && cow_url(self.jti->Some_0) == *value) { self.jti.as_ref().filter(|jti: &&Cow<'_, Url>| -> (b: bool) ensures b == (cow_url(**jti) == *value) { jti.as_ref() == value }).is_some() })
      .unwrap_or(true)
    {
      return Err(Error::InconsistentCredentialJwtClaims("inconsistent credential id"));
    };

    // Check consistency of credentialSubject
    if let Some(ref inner_credential_subject_id) = self.vc.credential_subject.id {
      let subject_claim = self.sub.as_ref().ok_or(Error::InconsistentCredentialJwtClaims(
        "inconsistent credentialSubject: expected identifier in sub",
      ))?;
      if subject_claim.as_ref() != inner_credential_subject_id {
        return Err(Error::InconsistentCredentialJwtClaims(
          "inconsistent credentialSubject: identifiers do not match",
        ));
      }
    };

    Ok(())
  }
}
} // mod fns2

// ------------------------------------------------ presentations ------------------------------------------------
#[derive(Clone)]
pub struct Presentation {
  pub context: OneOrMany<Context>,
  pub id: Option<Url>,
  pub types: OneOrMany<String>,
  pub verifiable_credential: Vec<Jwt>,
  pub holder: Url,
  pub refresh_service: OneOrMany<RefreshService>,
  pub terms_of_use: OneOrMany<Policy>,
  pub properties: Object,
  pub proof: Option<Proof>,
}
pub struct JwtPresentationOptions {
  pub expiration_date: Option<Timestamp>,
  pub issuance_date: Option<Timestamp>,
  pub audience: Option<Url>,
  pub custom_claims: Option<Object>,
}
pub struct InnerPresentation<'presentation> {
  pub context: Cow<'presentation, OneOrMany<Context>>,
  pub id: Option<Url>,
  pub types: Cow<'presentation, OneOrMany<String>>,
  pub verifiable_credential: Cow<'presentation, Vec<Jwt>>,
  pub holder: Option<Url>,
  pub refresh_service: Cow<'presentation, OneOrMany<RefreshService>>,
  pub terms_of_use: Cow<'presentation, OneOrMany<Policy>>,
  pub properties: Cow<'presentation, Object>,
  pub proof: Option<Cow<'presentation, Proof>>,
}
pub struct PresentationJwtClaims<'presentation> {
  pub exp: Option<i64>,
  pub iss: Cow<'presentation, Url>,
  pub issuance_date: Option<IssuanceDateClaims>,
  pub jti: Option<Cow<'presentation, Url>>,
  pub aud: Option<Url>,
  pub vp: InnerPresentation<'presentation>,
  pub custom: Option<Object>,
}

/// C07/C03: holder / id values duplicated inside `vp` agree with the registered claims
pub open spec fn pres_claims_consistent(c: &PresentationJwtClaims<'_>) -> bool {
  &&& (c.vp.id is Some ==> c.jti is Some && cow_url(c.jti->Some_0) == c.vp.id->Some_0)
  &&& (c.vp.holder is Some ==> cow_url(c.iss) == c.vp.holder->Some_0)
}

pub mod fns3 { use vstd::prelude::*; use std::borrow::Cow; use super::*;
broadcast use {ctypes::axiom_ts_window, ctypes::axiom_ts_ext, axiom_cow_ref_issuer, axiom_cow_ref_url};
impl<'presentation> PresentationJwtClaims<'presentation> {
  pub fn check_consistency(&self) -> (r: Result<()>)
    ensures r is Ok <==> pres_claims_consistent(self),
  {
    if !self
      .vp
      .id
      .as_ref()
      .map(|value: &Url| -> (b: bool) ensures b == (self.jti is Some && cow_url(self.jti->Some_0) == *value) { self.jti.as_ref().filter(|jti: &&Cow<'_, Url>| -> (b: bool) ensures b == (cow_url(**jti) == *value) { jti.as_ref() == value }).is_some() })
      .unwrap_or(true)
    {
      return Err(Error::InconsistentPresentationJwtClaims("inconsistent presentation id"));
    };

    if !self
      .vp
      .holder
      .as_ref()
      .map(|value: &Url| -> (b: bool) ensures b == (cow_url(self.iss) == *value) { self.iss.as_ref() == value })
      .unwrap_or(true)
    {
      return Err(Error::InconsistentPresentationJwtClaims(
        "inconsistent presentation holder",
      ));
    };

    Ok(())
  }
}
} // mod fns3

pub mod fns4 { use vstd::prelude::*; use std::borrow::Cow; use super::*;
broadcast use {ctypes::axiom_ts_window, ctypes::axiom_ts_ext, axiom_cow_ref_issuer, axiom_cow_ref_url};
impl<'credential> InnerCredentialSubject<'credential> {
  fn new(subject: &'credential Subject) -> (r: Self)
    ensures r.id is None,
  {
    Self {
      
      id: None,
      properties: Cow::Borrowed(&subject.properties),
    }
  }
}
impl<'credential> CredentialJwtClaims<'credential> {
  pub(crate) fn new(credential: &'credential Credential, custom: Option<Object>) -> (r: Result<Self>)
    ensures
      // more than one subject cannot be expressed in a JWT
      r is Ok <==> credential.credential_subject is One,
      r is Ok ==> {
        let k = r->Ok_0;
        let subject = credential.credential_subject->One_0;
        // issuer, subject id, credential id, issuance and expiration are carried ONCE, in iss/sub/jti/nbf/exp
        &&& cow_issuer(k.iss) == credential.issuer
        &&& (k.sub is Some <==> subject.id is Some) && (k.sub is Some ==> cow_url(k.sub->Some_0) == subject.id->Some_0)
        &&& (k.jti is Some <==> credential.id is Some) && (k.jti is Some ==> cow_url(k.jti->Some_0) == credential.id->Some_0)
        &&& k.issuance_date.nbf == Some(ts_unix(credential.issuance_date) as i64) && k.issuance_date.iat is None
        &&& (k.exp is Some <==> credential.expiration_date is Some) && (k.exp is Some ==> k.exp->Some_0 == ts_unix(credential.expiration_date->Some_0))
        &&& k.vc.id is None && k.vc.issuer is None && k.vc.issuance_date is None && k.vc.expiration_date is None && k.vc.credential_subject.id is None
        &&& k.vc.non_transferable == credential.non_transferable
        &&& k.custom == custom
        // hence the claims set produced is self-consistent
        &&& cred_claims_consistent(&k)
      },
  {
    let Credential {
      context,
      id,
      types,
      credential_subject: OneOrMany::One(subject),
      issuer,
      issuance_date,
      expiration_date,
      credential_status,
      credential_schema,
      refresh_service,
      terms_of_use,
      evidence,
      non_transferable,
      properties,
      proof,
    } = credential
    else {
      return Err(Error::MoreThanOneSubjectInJwt);
    };

    Ok(Self {
      exp: expiration_date.map(|value: Timestamp| -> (x: i64) ensures x == ts_unix(value) { Timestamp::to_unix(&value) }),
      iss: Cow::Borrowed(issuer),
      issuance_date: IssuanceDateClaims::new(*issuance_date),
      jti: id.as_ref().map(|x_eta| -> (r_eta: Cow<'_, _>) ensures r_eta == Cow::Borrowed(x_eta) { Cow::Borrowed(x_eta) }),
      sub: subject.id.as_ref().map(|x_eta| -> (r_eta: Cow<'_, _>) ensures r_eta == Cow::Borrowed(x_eta) { Cow::Borrowed(x_eta) }),
      vc: InnerCredential {
        context: Cow::Borrowed(context),
        id: None,
        types: Cow::Borrowed(types),
        credential_subject: InnerCredentialSubject::new(subject),
        issuance_date: None,
        expiration_date: None,
        issuer: None,
        credential_schema: Cow::Borrowed(credential_schema),
        credential_status: credential_status.as_ref().map(|x_eta| -> (r_eta: Cow<'_, _>) ensures r_eta == Cow::Borrowed(x_eta) { Cow::Borrowed(x_eta) }),
        refresh_service: Cow::Borrowed(refresh_service),
        terms_of_use: Cow::Borrowed(terms_of_use),
        evidence: Cow::Borrowed(evidence),
        non_transferable: *non_transferable,
        properties: Cow::Borrowed(properties),
        proof: proof.as_ref().map(|x_eta| -> (r_eta: Cow<'_, _>) ensures r_eta == Cow::Borrowed(x_eta) { Cow::Borrowed(x_eta) }),
      },
      custom,
    })
  }
}
} // mod fns4

pub mod fns5 { use vstd::prelude::*; use std::borrow::Cow; use super::*;
broadcast use {ctypes::axiom_ts_window, ctypes::axiom_ts_ext, axiom_cow_ref_issuer, axiom_cow_ref_url, axiom_cow_owned_issuer, axiom_cow_owned_url};
impl<'credential> CredentialJwtClaims<'credential> {
  pub(crate) fn try_into_credential(self) -> (r: Result<Credential>)
    ensures
      // rejected rather than silently resolved: inconsistent duplicates, dates outside years 0000-9999
      r is Ok <==> (cred_claims_consistent(&self) && issuance_unix(self.issuance_date) is Some && (self.exp is Some ==> in_window(self.exp->Some_0 as int))),
      r is Ok ==> {
        let c = r->Ok_0;
        &&& c.issuer == cow_issuer(self.iss)
        &&& c.credential_subject is One
        &&& (c.credential_subject->One_0.id is Some <==> self.sub is Some) && (self.sub is Some ==> c.credential_subject->One_0.id->Some_0 == cow_url(self.sub->Some_0))
        &&& (c.id is Some <==> self.jti is Some) && (self.jti is Some ==> c.id->Some_0 == cow_url(self.jti->Some_0))
        &&& ts_unix(c.issuance_date) == issuance_unix(self.issuance_date)->Some_0
        &&& (c.expiration_date is Some <==> self.exp is Some) && (self.exp is Some ==> ts_unix(c.expiration_date->Some_0) == self.exp->Some_0)
        &&& c.non_transferable == self.vc.non_transferable
      },
  {
    self.check_consistency()?;

    let Self {
      exp,
      iss,
      issuance_date,
      jti,
      sub,
      vc,
      custom: _,
    } = self;

    let InnerCredential {
      context,
      id: _,
      types,
      credential_subject,
      credential_status,
      credential_schema,
      refresh_service,
      terms_of_use,
      evidence,
      non_transferable,
      properties,
      proof,
      issuance_date: _,
      issuer: _,
      expiration_date: _,
    } = vc;

    Ok(Credential {
      context: context.into_owned(),
      id: jti.map(|x_eta| -> (r_eta: _) requires call_requires(Cow::into_owned, (x_eta,)) ensures call_ensures(Cow::into_owned, (x_eta,), r_eta) { Cow::into_owned(x_eta) }),
      types: types.into_owned(),
      credential_subject: {
        OneOrMany::One(Subject {
          id: sub.map(|x_eta| -> (r_eta: _) requires call_requires(Cow::into_owned, (x_eta,)) ensures call_ensures(Cow::into_owned, (x_eta,), r_eta) { Cow::into_owned(x_eta) }),
          properties: credential_subject.properties.into_owned(),
        })
      },
      issuer: iss.into_owned(),
      issuance_date: issuance_date.to_issuance_date()?,
      expiration_date: exp
        .map(|x_eta| -> (r_eta: _) requires call_requires(Timestamp::from_unix, (x_eta,)) ensures call_ensures(Timestamp::from_unix, (x_eta,), r_eta) { Timestamp::from_unix(x_eta) })
        .transpose()
        .map_err(|_unused| Error::TimestampConversionError)?,
      credential_status: credential_status.map(|x_eta| -> (r_eta: _) requires call_requires(Cow::into_owned, (x_eta,)) ensures call_ensures(Cow::into_owned, (x_eta,), r_eta) { Cow::into_owned(x_eta) }),
      credential_schema: credential_schema.into_owned(),
      refresh_service: refresh_service.into_owned(),
      terms_of_use: terms_of_use.into_owned(),
      evidence: evidence.into_owned(),
      non_transferable,
      properties: properties.into_owned(),
      proof: proof.map(|x_eta| -> (r_eta: _) requires call_requires(Cow::into_owned, (x_eta,)) ensures call_ensures(Cow::into_owned, (x_eta,), r_eta) { Cow::into_owned(x_eta) }),
    })
  }
}

/// C07 round trip on the fields the property names: credential -> claims -> credential gives the same issuer, subject id,
/// credential id, issuance and expiration instants, nonTransferable (over the contracts of `new` and `try_into_credential`)
pub proof fn lemma_roundtrip(c: &Credential, k: &CredentialJwtClaims<'_>, back: &Credential)
  requires
    c.credential_subject is One,
    // k = new(c)
    cow_issuer(k.iss) == c.issuer,
    (k.sub is Some <==> c.credential_subject->One_0.id is Some) && (k.sub is Some ==> cow_url(k.sub->Some_0) == c.credential_subject->One_0.id->Some_0),
    (k.jti is Some <==> c.id is Some) && (k.jti is Some ==> cow_url(k.jti->Some_0) == c.id->Some_0),
    k.issuance_date.nbf == Some(ts_unix(c.issuance_date) as i64) && k.issuance_date.iat is None,
    (k.exp is Some <==> c.expiration_date is Some) && (k.exp is Some ==> k.exp->Some_0 == ts_unix(c.expiration_date->Some_0)),
    k.vc.non_transferable == c.non_transferable,
    // back = try_into_credential(k)
    back.issuer == cow_issuer(k.iss), back.credential_subject is One,
    (back.credential_subject->One_0.id is Some <==> k.sub is Some) && (k.sub is Some ==> back.credential_subject->One_0.id->Some_0 == cow_url(k.sub->Some_0)),
    (back.id is Some <==> k.jti is Some) && (k.jti is Some ==> back.id->Some_0 == cow_url(k.jti->Some_0)),
    ts_unix(back.issuance_date) == issuance_unix(k.issuance_date)->Some_0,
    (back.expiration_date is Some <==> k.exp is Some) && (k.exp is Some ==> ts_unix(back.expiration_date->Some_0) == k.exp->Some_0),
    back.non_transferable == k.vc.non_transferable,
  ensures
    back.issuer == c.issuer, back.id == c.id, back.credential_subject->One_0.id == c.credential_subject->One_0.id,
    back.issuance_date == c.issuance_date, back.expiration_date == c.expiration_date, back.non_transferable == c.non_transferable,
{
  assert(in_window(ts_unix(c.issuance_date)));
}
} // mod fns5

pub mod fns6 { use vstd::prelude::*; use std::borrow::Cow; use super::*;
broadcast use {ctypes::axiom_ts_window, ctypes::axiom_ts_ext, axiom_cow_ref_issuer, axiom_cow_ref_url, axiom_cow_owned_issuer, axiom_cow_owned_url};
impl<'presentation> PresentationJwtClaims<'presentation> {
  pub fn new(
  presentation: &'presentation Presentation,
  options: &JwtPresentationOptions,
  ) -> (r: Result<Self>)
    ensures
      r is Ok,
      ({
        let k = r->Ok_0;
        // holder, id, expiry, issuance and audience are carried once, in iss/jti/exp/nbf/aud
        &&& cow_url(k.iss) == presentation.holder
        &&& (k.jti is Some <==> presentation.id is Some) && (k.jti is Some ==> cow_url(k.jti->Some_0) == presentation.id->Some_0)
        &&& (k.exp is Some <==> options.expiration_date is Some) && (k.exp is Some ==> k.exp->Some_0 == ts_unix(options.expiration_date->Some_0))
        &&& (k.issuance_date is Some <==> options.issuance_date is Some)
        &&& (k.issuance_date is Some ==> k.issuance_date->Some_0.nbf == Some(ts_unix(options.issuance_date->Some_0) as i64) && k.issuance_date->Some_0.iat is None)
        &&& k.aud == options.audience
        &&& k.vp.id is None && k.vp.holder is None
        &&& pres_claims_consistent(&k)
      }),
  {
    let Presentation {
      context,
      id,
      types,
      verifiable_credential,
      holder,
      refresh_service,
      terms_of_use,
      properties,
      proof,
    } = presentation;

    Ok(Self {
      iss: Cow::Borrowed(holder),
      jti: id.as_ref().map(|x_eta| -> (r_eta: Cow<'_, _>) ensures r_eta == Cow::Borrowed(x_eta) { Cow::Borrowed(x_eta) }),
      vp: InnerPresentation {
        context: Cow::Borrowed(context),
        id: None,
        types: Cow::Borrowed(types),
        verifiable_credential: Cow::Borrowed(verifiable_credential),
        refresh_service: Cow::Borrowed(refresh_service),
        terms_of_use: Cow::Borrowed(terms_of_use),
        properties: Cow::Borrowed(properties),
        proof: proof.as_ref().map(|x_eta| -> (r_eta: Cow<'_, _>) ensures r_eta == Cow::Borrowed(x_eta) { Cow::Borrowed(x_eta) }),
        holder: None,
      },
      exp: options.expiration_date.map(|expiration_date: Timestamp| -> (x: i64) ensures x == ts_unix(expiration_date) { expiration_date.to_unix() }),
      issuance_date: options.issuance_date.map(|x_eta| -> (r_eta: _) requires call_requires(IssuanceDateClaims::new, (x_eta,)) ensures call_ensures(IssuanceDateClaims::new, (x_eta,), r_eta) { IssuanceDateClaims::new(x_eta) }),
      aud: options.audience.clone(),
      custom: options.custom_claims.clone(),
    })
  }
  pub(crate) fn try_into_presentation(self) -> (r: Result<Presentation>)
    ensures
      r is Ok <==> pres_claims_consistent(&self),
      r is Ok ==> r->Ok_0.holder == cow_url(self.iss)
        && (r->Ok_0.id is Some <==> self.jti is Some) && (self.jti is Some ==> r->Ok_0.id->Some_0 == cow_url(self.jti->Some_0)),
  {
    self.check_consistency()?;
    let Self {
      exp: _,
      iss,
      issuance_date: _,
      jti,
      aud: _,
      vp,
      custom: _,
    } = self;
    let InnerPresentation {
      context,
      id: _,
      types,
      verifiable_credential,
      refresh_service,
      terms_of_use,
      properties,
      proof,
      holder: _,
    } = vp;

    let presentation = Presentation {
      context: context.into_owned(),
      id: jti.map(|x_eta| -> (r_eta: _) requires call_requires(Cow::into_owned, (x_eta,)) ensures call_ensures(Cow::into_owned, (x_eta,), r_eta) { Cow::into_owned(x_eta) }),
      types: types.into_owned(),
      verifiable_credential: verifiable_credential.into_owned(),
      holder: iss.into_owned(),
      refresh_service: refresh_service.into_owned(),
      terms_of_use: terms_of_use.into_owned(),
      properties: properties.into_owned(),
      proof: proof.map(|x_eta| -> (r_eta: _) requires call_requires(Cow::into_owned, (x_eta,)) ensures call_ensures(Cow::into_owned, (x_eta,), r_eta) { Cow::into_owned(x_eta) }),
    };

    Ok(presentation)
  }
}
} // mod fns6



} // verus!
fn main() {}

