// Unit `state_metadata` — serves C14 (+ C05).
#![feature(allocator_api)]
use vstd::prelude::*;
verus! {

// ---- shared std prelude (assumed specifications of core/alloc items vstd does not cover) ----
pub mod vxstd {
use vstd::prelude::*;
/// Rust's `?` converts the error with `From::from`; vstd leaves `spec_from` uninterpreted.
pub broadcast proof fn axiom_question_mark_uses_from<F: From<E>, E>(e: E, r: F)
  ensures #[trigger] vstd::std_specs::control_flow::spec_from::<F, E>(e, r) ==> call_ensures(<F as From<E>>::from, (e,), r)
{ admit(); }
/// `str` values are determined by their characters (Verus compares string patterns by value, exec `==` by view).
pub broadcast proof fn axiom_str_ext(a: &str, b: &str)
  ensures #![trigger a@, b@] (a@ == b@) ==> a == b
{ admit(); }
/// the items an `IntoIterator` yields (uninterpreted; pinned down for slices below)
pub uninterp spec fn iter_items<T, I>(i: I) -> Seq<T>;
/// iterating a `&[T]` yields its elements in order
pub broadcast proof fn axiom_iter_items_slice<'a, T>(s: &'a [T])
  ensures #[trigger] iter_items::<T, &'a [T]>(s) == s@
{ admit(); }
/// `String == str` (also through references) compares the characters.
pub broadcast proof fn axiom_string_str_eq(a: &String, b: &str)
  ensures #![trigger a@, b@] <String as vstd::std_specs::cmp::PartialEqSpec<str>>::obeys_eq_spec()
    && <String as vstd::std_specs::cmp::PartialEqSpec<str>>::eq_spec(a, b) == (a@ == b@)
{ admit(); }
}
/// ASSUMED std spec: Option::or_else
pub assume_specification<T, F: FnOnce() -> Option<T>>[ Option::<T>::or_else ](o: Option<T>, f: F) -> (r: Option<T>)
  requires o is None ==> f.requires(()),
  ensures o is Some ==> r == o, o is None ==> f.ensures((), r);
/// ASSUMED std spec: Vec::extend from an iterator of references appends the items
pub assume_specification<'a, T: Copy + 'a, A: core::alloc::Allocator, I: IntoIterator<Item = &'a T>>[ <Vec<T, A> as Extend<&'a T>>::extend ](v: &mut Vec<T, A>, i: I)
  ensures final(v)@ == old(v)@ + vxstd::iter_items::<T, I>(i);
/// ASSUMED std spec: Option<Result<T,E>>::transpose
pub assume_specification<T, E>[ Option::<Result<T, E>>::transpose ](o: Option<Result<T, E>>) -> (r: Result<Option<T>, E>)
  ensures
    o is None ==> r == Ok::<Option<T>, E>(None),
    o is Some && o->Some_0 is Ok ==> r == Ok::<Option<T>, E>(Some(o->Some_0->Ok_0)),
    o is Some && o->Some_0 is Err ==> r == Err::<Option<T>, E>(o->Some_0->Err_0);
/// ASSUMED std spec: Vec<T> -> Box<[T]> keeps the elements
pub assume_specification<T, A: core::alloc::Allocator>[ <Box<[T], A> as From<Vec<T, A>>>::from ](v: Vec<T, A>) -> (r: Box<[T], A>)
  ensures r@ == v@;


// ---- foreign types (opaque) ----
pub mod identity_core { use vstd::prelude::*; #[verifier::external_body] pub struct Error { _p: () } }
pub mod identity_did { use vstd::prelude::*; #[verifier::external_body] pub struct Error { _p: () } }
pub mod identity_document {
  use vstd::prelude::*;
  #[verifier::external_body] pub struct OtherDocError { _p: () }
  pub enum Error { InvalidDocument(&'static str, Option<super::identity_core::Error>), Other(OtherDocError) }
}
#[verifier::external_body] pub struct CoreDocument { _p: () }
#[verifier::external_body] pub struct IotaDocumentMetadata { _p: () }

pub type Result<T, E = Error> = core::result::Result<T, E>;
pub enum Error {
  SerializationError(&'static str,  Option<identity_core::Error>),
  DIDSyntaxError( identity_did::Error),
  InvalidDoc( identity_document::Error),
  InvalidNetworkName(String),
  NetworkMismatch {
    expected: String,
    actual: String,
  },
  InvalidStateMetadata(&'static str),
  OutputIdConversionError(String),
  JwsVerificationError( identity_document::Error),
}
#[derive(Clone, Copy)]
pub enum StateMetadataEncoding {
  Json = 0,
}
#[derive(Clone, Copy)]
pub enum StateMetadataVersion {
  V1 = 1,
}
pub struct StateMetadataDocument {
  pub document: CoreDocument,
  pub metadata: IotaDocumentMetadata,
}
pub exec const DID_MARKER: &'static [u8] ensures DID_MARKER@ == seq![0x44u8, 0x49u8, 0x44u8] { &[0x44u8, 0x49u8, 0x44u8] }

/// num_derive::FromPrimitive on the two fieldless enums (ASSUMED derive behaviour: discriminant lookup)
pub trait FromPrimitive: Sized { fn from_u8(n: u8) -> Option<Self>; }
impl FromPrimitive for StateMetadataVersion {
  #[verifier::external_body]
  fn from_u8(n: u8) -> (r: Option<Self>) ensures r == (if n == 1 { Some(StateMetadataVersion::V1) } else { None }) { unimplemented!() }
}
impl FromPrimitive for StateMetadataEncoding {
  #[verifier::external_body]
  fn from_u8(n: u8) -> (r: Option<Self>) ensures r == (if n == 0 { Some(StateMetadataEncoding::Json) } else { None }) { unimplemented!() }
}
impl vstd::std_specs::cmp::PartialEqSpecImpl for StateMetadataVersion {
  open spec fn obeys_eq_spec() -> bool { true }
  open spec fn eq_spec(&self, other: &StateMetadataVersion) -> bool { *self == *other }
}
impl PartialEq for StateMetadataVersion { fn eq(&self, other: &Self) -> (r: bool) ensures r == (*self == *other) { match (self, other) { (StateMetadataVersion::V1, StateMetadataVersion::V1) => true } } }
impl StateMetadataVersion {
  pub const CURRENT: Self = Self::V1;
}

/// enum-to-u8 casts of the two flag enums (`version as u8`, `encoding as u8`): discriminants as declared
pub open spec fn version_byte(v: StateMetadataVersion) -> u8 { 1u8 }
pub open spec fn encoding_byte(e: StateMetadataEncoding) -> u8 { 0u8 }
#[verifier::external_body] fn shim_version_as_u8(v: StateMetadataVersion) -> (r: u8) ensures r == version_byte(v) { v as u8 }
#[verifier::external_body] fn shim_encoding_as_u8(e: StateMetadataEncoding) -> (r: u8) ensures r == encoding_byte(e) { e as u8 }
#[verifier::external_body] fn shim_u16_from_le_bytes(b: [u8; 2]) -> (r: u16) ensures r == b[0] as u16 + 256 * (b[1] as u16) { u16::from_le_bytes(b) }
#[verifier::external_body] fn shim_u16_to_le_bytes(n: u16) -> (r: [u8; 2]) ensures r[0] == n % 256, r[1] == n / 256 { n.to_le_bytes() }

/// JSON deserialisation of the payload: uninterpreted
pub uninterp spec fn json_doc(data: Seq<u8>) -> Option<StateMetadataDocument>;
impl StateMetadataDocument {
  #[verifier::external_body]
  pub fn from_json_slice(data: &[u8]) -> (r: core::result::Result<Self, identity_core::Error>)
    ensures r is Ok <==> json_doc(data@) is Some, r is Ok ==> r->Ok_0 == json_doc(data@)->Some_0
  { unimplemented!() }
}

// ---------------------------------- the framing (written from the property / the wire format) ----------------------------------
pub open spec fn le16(n: int) -> Seq<u8> { seq![(n % 256) as u8, (n / 256) as u8] }
pub open spec fn framed(data: Seq<u8>) -> Seq<u8> { seq![0x44u8, 0x49u8, 0x44u8] + seq![1u8] + seq![0u8] + le16(data.len() as int) + data }
pub open spec fn prefix_len(x: Seq<u8>) -> int { x[5] as int + 256 * (x[6] as int) }
/// marker, version, encoding byte and length prefix are all acceptable
pub open spec fn header_ok(x: Seq<u8>) -> bool {
  x.len() >= 7 && x[0] == 0x44 && x[1] == 0x49 && x[2] == 0x44 && x[3] == 1 && x[4] == 0 && 7 + prefix_len(x) <= x.len()
}
pub open spec fn payload(x: Seq<u8>) -> Seq<u8> { x.subrange(7, 7 + prefix_len(x)) }

fn add_flags_to_message(
mut data: Vec<u8>,
version: StateMetadataVersion,
encoding: StateMetadataEncoding,
) -> (r: Result<Vec<u8>>)
  ensures
    // documents too large for the 16-bit length fail to pack
    r is Ok <==> data@.len() <= 65535,
    r is Ok ==> r->Ok_0@ == seq![0x44u8, 0x49u8, 0x44u8] + seq![version_byte(version)] + seq![encoding_byte(encoding)] + le16(data@.len() as int) + data@,
{
  let data_len: u16 =
    u16::try_from(data.len()).map_err(|_unused| Error::SerializationError("failed to convert usize to u16", None))?;
  let data_len_packed: [u8; 2] = shim_u16_to_le_bytes(data_len);
  let mut buffer: Vec<u8> = Vec::with_capacity(DID_MARKER.len() + 1 + 1 + data_len_packed.len() + data_len as usize);
  buffer.extend_from_slice(DID_MARKER);
  buffer.push(shim_version_as_u8(version));
  buffer.push(shim_encoding_as_u8(encoding));
  buffer.extend_from_slice(&data_len_packed);
  buffer.append(&mut data);
  Ok(buffer)
}

impl vstd::std_specs::convert::TryFromSpecImpl<u8> for StateMetadataVersion {
  open spec fn obeys_try_from_spec() -> bool { false }
  open spec fn try_from_spec(v: u8) -> core::result::Result<Self, Error> { arbitrary() }
}
impl TryFrom<u8> for StateMetadataVersion {
  type Error = Error;
  fn try_from(value: u8) -> (r: Result<Self, Self::Error>)
    ensures r is Ok <==> value == 1, r is Ok ==> r->Ok_0 == StateMetadataVersion::V1,
  {
    FromPrimitive::from_u8(value).ok_or(Error::InvalidStateMetadata("unsupported version number"))
  }
}
impl vstd::std_specs::convert::TryFromSpecImpl<u8> for StateMetadataEncoding {
  open spec fn obeys_try_from_spec() -> bool { false }
  open spec fn try_from_spec(v: u8) -> core::result::Result<Self, Error> { arbitrary() }
}
impl TryFrom<u8> for StateMetadataEncoding {
  type Error = Error;
  fn try_from(value: u8) -> (r: Result<Self, Self::Error>)
    ensures r is Ok <==> value == 0, r is Ok ==> r->Ok_0 == StateMetadataEncoding::Json,
  {
    FromPrimitive::from_u8(value).ok_or(Error::InvalidStateMetadata("unsupported encoding"))
  }
}

/// ASSUMED std behaviour of `<&[u8]>::try_into::<[u8; 2]>()`: succeeds exactly for length 2 and keeps the bytes (R5 shim:
/// vstd's TryInto spec cannot be given for foreign types)
#[verifier::external_type_specification] #[verifier::external_body] pub struct ExTryFromSliceError(core::array::TryFromSliceError);
pub trait SliceToArr2 { fn verif_try_into_arr2(self) -> core::result::Result<[u8; 2], core::array::TryFromSliceError>; }
impl<'a> SliceToArr2 for &'a [u8] {
  #[verifier::external_body]
  fn verif_try_into_arr2(self) -> (r: core::result::Result<[u8; 2], core::array::TryFromSliceError>)
    ensures r is Ok <==> self@.len() == 2, r is Ok ==> r->Ok_0@ == self@
  { self.try_into() }
}

impl StateMetadataDocument {
  pub fn unpack(data: &[u8]) -> (r: Result<Self>)
    ensures
      // wrong marker / version / encoding byte, a truncated header, or a length prefix exceeding the data: rejected
      r is Ok <==> (header_ok(data@) && json_doc(payload(data@)) is Some),
      // the result depends only on the prefixed payload: bytes beyond the prefixed length are ignored
      r is Ok ==> r->Ok_0 == json_doc(payload(data@))->Some_0,
  {
    // Check marker.
    let marker: &[u8] = data
      .get(0..=2)
      .ok_or(identity_document::Error::InvalidDocument(
        "state metadata decoding: expected DID marker at offset [0..=2]",
        None,
      ))
      .map_err(|x_eta| -> (r_eta: Error) ensures r_eta == Error::InvalidDoc(x_eta) { Error::InvalidDoc(x_eta) })?;
 proof { assert(marker@.len() == 3 && marker@[0] == data@[0] && marker@[1] == data@[1] && marker@[2] == data@[2]); assert((marker@ =~= seq![0x44u8, 0x49u8, 0x44u8]) <==> (data@[0] == 0x44 && data@[1] == 0x49 && data@[2] == 0x44)); }     if !slice_eq_u8(marker, DID_MARKER) {
      return Err(Error::InvalidStateMetadata("missing `DID` marker"));
    }

    // Check version.
    let version: StateMetadataVersion = StateMetadataVersion::try_from(
      *data
        .get(3)
        .ok_or(identity_document::Error::InvalidDocument(
          "state metadata decoding: expected version at offset 3",
          None,
        ))
        .map_err(|x_eta| -> (r_eta: Error) ensures r_eta == Error::InvalidDoc(x_eta) { Error::InvalidDoc(x_eta) })?,
    )?;
    if version != StateMetadataVersion::V1 {
      return Err(Error::InvalidStateMetadata("unsupported version"));
    }

    // Decode data.
    let encoding: StateMetadataEncoding = StateMetadataEncoding::try_from(
      *data
        .get(4)
        .ok_or(identity_document::Error::InvalidDocument(
          "state metadata decoding: expected encoding at offset 4",
          None,
        ))
        .map_err(|x_eta| -> (r_eta: Error) ensures r_eta == Error::InvalidDoc(x_eta) { Error::InvalidDoc(x_eta) })?,
    )?;

    let data_len_packed: [u8; 2] = data
      .get(5..=6)
      .ok_or(identity_document::Error::InvalidDocument(
        "state metadata decoding: expected data length at offset [5..=6]",
        None,
      ))
      .map_err(|x_eta| -> (r_eta: Error) ensures r_eta == Error::InvalidDoc(x_eta) { Error::InvalidDoc(x_eta) })?
      .verif_try_into_arr2()
      .map_err(|_unused| {
        identity_document::Error::InvalidDocument("state metadata decoding: data length conversion error", None)
      })
      .map_err(|x_eta| -> (r_eta: Error) ensures r_eta == Error::InvalidDoc(x_eta) { Error::InvalidDoc(x_eta) })?;
    let data_len: u16 = shim_u16_from_le_bytes(data_len_packed);

    let data: &[u8] = data
      .get(7..(7 + data_len as usize))
      .ok_or(identity_document::Error::InvalidDocument(
        "state metadata decoding: encoded document shorter than length prefix",
        None,
      ))
      .map_err(|x_eta| -> (r_eta: Error) ensures r_eta == Error::InvalidDoc(x_eta) { Error::InvalidDoc(x_eta) })?;

    match encoding {
      StateMetadataEncoding::Json => StateMetadataDocument::from_json_slice(data).map_err(|err| {
        Error::SerializationError(
          "state metadata decoding: failed to deserialize JSON document",
          Some(err),
        )
      }),
    }
  }
}
/// `a != b` on byte slices (ASSUMED: element-wise comparison)
#[verifier::external_body] fn slice_eq_u8(a: &[u8], b: &[u8]) -> (r: bool) ensures r == (a@ == b@) { a == b }

/// pack-then-unpack at the byte level: what `add_flags_to_message` writes is accepted by `unpack`'s header check
/// and yields exactly the payload back, also when arbitrary bytes follow
pub proof fn lemma_frame_roundtrip(d: Seq<u8>, extra: Seq<u8>)
  requires d.len() <= 65535
  ensures header_ok(framed(d) + extra), payload(framed(d) + extra) == d
{
  let x = framed(d) + extra;
  let n = d.len() as int;
  assert(x[5] == (n % 256) as u8 && x[6] == (n / 256) as u8);
  assert(prefix_len(x) == n);
  assert(x.subrange(7, 7 + n) =~= d);
}

} // verus!
fn main() {}

