// Unit `revocation_bitmap` — serves C06 (+ C05).
#![feature(allocator_api)]
#![feature(sized_hierarchy)]
#![verifier::allow(undeclared_external_trait)]
use vstd::prelude::*;
use std::borrow::Cow;
use vstd::string::StringSliceAdditionalSpecFns;
verus! {

// ---- shared std prelude (assumed specifications of core/alloc items vstd does not cover) ----
pub mod vxstd {
use vstd::prelude::*;
/// Rust's `?` converts the error with `From::from`; vstd leaves `spec_from` uninterpreted.
pub broadcast proof fn axiom_question_mark_uses_from<F: From<E>, E>(e: E, r: F)
  ensures #[trigger] vstd::std_specs::control_flow::spec_from::<F, E>(e, r) ==> call_ensures(<F as From<E>>::from, (e,), r)
{ admit(); }
/// `str` values are determined by their characters (Verus compares string patterns by value, exec `==` by view).
pub broadcast proof fn axiom_str_ext(a: &str, b: &str)
  ensures #![trigger a@, b@] (a@ == b@) ==> a == b
{ admit(); }
/// the items an `IntoIterator` yields (uninterpreted; pinned down for slices below)
pub uninterp spec fn iter_items<T, I>(i: I) -> Seq<T>;
/// iterating a `&[T]` yields its elements in order
pub broadcast proof fn axiom_iter_items_slice<'a, T>(s: &'a [T])
  ensures #[trigger] iter_items::<T, &'a [T]>(s) == s@
{ admit(); }
/// `String == str` (also through references) compares the characters.
pub broadcast proof fn axiom_string_str_eq(a: &String, b: &str)
  ensures #![trigger a@, b@] <String as vstd::std_specs::cmp::PartialEqSpec<str>>::obeys_eq_spec()
    && <String as vstd::std_specs::cmp::PartialEqSpec<str>>::eq_spec(a, b) == (a@ == b@)
{ admit(); }
}
/// ASSUMED std spec: Option::or_else
pub assume_specification<T, F: FnOnce() -> Option<T>>[ Option::<T>::or_else ](o: Option<T>, f: F) -> (r: Option<T>)
  requires o is None ==> f.requires(()),
  ensures o is Some ==> r == o, o is None ==> f.ensures((), r);
/// ASSUMED std spec: Vec::extend from an iterator of references appends the items
pub assume_specification<'a, T: Copy + 'a, A: core::alloc::Allocator, I: IntoIterator<Item = &'a T>>[ <Vec<T, A> as Extend<&'a T>>::extend ](v: &mut Vec<T, A>, i: I)
  ensures final(v)@ == old(v)@ + vxstd::iter_items::<T, I>(i);
/// ASSUMED std spec: Option<Result<T,E>>::transpose
pub assume_specification<T, E>[ Option::<Result<T, E>>::transpose ](o: Option<Result<T, E>>) -> (r: Result<Option<T>, E>)
  ensures
    o is None ==> r == Ok::<Option<T>, E>(None),
    o is Some && o->Some_0 is Ok ==> r == Ok::<Option<T>, E>(Some(o->Some_0->Ok_0)),
    o is Some && o->Some_0 is Err ==> r == Err::<Option<T>, E>(o->Some_0->Err_0);
/// ASSUMED std spec: Vec<T> -> Box<[T]> keeps the elements
pub assume_specification<T, A: core::alloc::Allocator>[ <Box<[T], A> as From<Vec<T, A>>>::from ](v: Vec<T, A>) -> (r: Box<[T], A>)
  ensures r@ == v@;
/// ASSUMED std spec: Option::filter (facts are stated in the direction closures support: f.ensures(args, b) ==> clause)
pub assume_specification<T, P: FnOnce(&T) -> bool>[ Option::<T>::filter ](o: Option<T>, p: P) -> (r: Option<T>)
  requires o is Some ==> p.requires((&o->Some_0,)),
  ensures
    o is None ==> r is None,
    o is Some ==> (r == o && p.ensures((&o->Some_0,), true)) || (r is None && p.ensures((&o->Some_0,), false));

// ---- AsRef as an external trait (needs #![feature(sized_hierarchy)] in the unit) ----
#[verifier::external_trait_specification]
pub trait ExAsRef<T: core::marker::PointeeSized>: core::marker::PointeeSized {
  type ExternalTraitSpecificationFor: AsRef<T> + core::marker::PointeeSized;
  fn as_ref(&self) -> &T;
}
/// ASSUMED std spec: the blanket `impl AsRef<U> for &T` forwards to T
pub assume_specification<'a, 'b, T: core::marker::PointeeSized + AsRef<U>, U: core::marker::PointeeSized>[ <&'a T as AsRef<U>>::as_ref ](s: &'b &'a T) -> (r: &'b U)
  ensures call_ensures(<T as AsRef<U>>::as_ref, (*s,), r);


// ------------------------------------------------------------------------------------------------
// Dependency boundary (ASSUMED): roaring (set of u32 + its portable serialisation), flate2 (zlib),
// identity_core::BaseEncoding (base64 / base64url), as uninterpreted functions with round-trip laws.
// ------------------------------------------------------------------------------------------------
pub mod deps {
  use vstd::prelude::*;
  #[verifier::external_body] pub struct RoaringBitmap { _p: () }
  pub uninterp spec fn members(b: &RoaringBitmap) -> Set<u32>;
  pub uninterp spec fn ser(s: Set<u32>) -> Seq<u8>;
  pub uninterp spec fn deser(b: Seq<u8>) -> Option<Set<u32>>;
  pub uninterp spec fn zlib(b: Seq<u8>) -> Seq<u8>;
  pub uninterp spec fn unzlib(b: Seq<u8>) -> Option<Seq<u8>>;
  pub uninterp spec fn b64url(b: Seq<u8>) -> Seq<char>;
  pub uninterp spec fn unb64url(s: Seq<char>) -> Option<Seq<u8>>;
  pub uninterp spec fn b64(b: Seq<u8>) -> Seq<char>;
  pub uninterp spec fn unb64(s: Seq<char>) -> Option<Seq<u8>>;
  pub uninterp spec fn utf8_of(s: Seq<char>) -> Seq<u8>;
  pub uninterp spec fn from_utf8(b: Seq<u8>) -> Option<Seq<char>>;
  /// ASSUMED round-trip laws of the three codecs
  pub broadcast proof fn axiom_deser_ser(s: Set<u32>) ensures #[trigger] deser(ser(s)) == Some(s) { admit(); }
  pub broadcast proof fn axiom_unzlib_zlib(b: Seq<u8>) ensures #[trigger] unzlib(zlib(b)) == Some(b) { admit(); }
  pub broadcast proof fn axiom_unb64url_b64url(b: Seq<u8>) ensures #[trigger] unb64url(b64url(b)) == Some(b) { admit(); }
  /// ASSUMED (RFC 1950 + flate2 Compression::default()): a zlib stream begins with CMF = 0x78, FLG = 0x9C
  pub broadcast proof fn axiom_zlib_header(b: Seq<u8>) ensures (#[trigger] zlib(b)).len() >= 2 && zlib(b)[0] == 0x78 && zlib(b)[1] == 0x9C { admit(); }
  /// ASSUMED (RFC 4648): the first two base64url characters are a function of the first 12 bits: 0x78 0x9C.. encodes to "eJ.."
  pub broadcast proof fn axiom_b64url_prefix(b: Seq<u8>)
    requires b.len() >= 2 && b[0] == 0x78 && b[1] == 0x9C
    ensures (#[trigger] b64url(b)).len() >= 3 && b64url(b)[0] == 'e' && b64url(b)[1] == 'J'
  { admit(); }
  pub broadcast proof fn axiom_unb64_b64(b: Seq<u8>) ensures #[trigger] unb64(b64(b)) == Some(b) { admit(); }
  pub broadcast proof fn axiom_from_utf8_utf8_of(s: Seq<char>) ensures #[trigger] from_utf8(utf8_of(s)) == Some(s) { admit(); }
  /// ASSUMED (UTF-8 of ASCII, RFC 4648): text beginning "eJ" has bytes 0x65 0x4A.., whose base64 begins "ZU"
  pub broadcast proof fn axiom_b64_of_ej(s: Seq<char>)
    requires s.len() >= 2 && s[0] == 'e' && s[1] == 'J'
    ensures (#[trigger] b64(utf8_of(s))).len() >= 2 && b64(utf8_of(s))[0] == 'Z' && b64(utf8_of(s))[1] == 'U'
  { admit(); }
  #[verifier::external_type_specification] #[verifier::external_body] pub struct ExIoError(std::io::Error);
  #[verifier::external_type_specification] #[verifier::external_body] pub struct ExFromUtf8Error(std::string::FromUtf8Error);
  pub assume_specification[ String::from_utf8 ](v: Vec<u8>) -> (r: core::result::Result<String, std::string::FromUtf8Error>)
    ensures r is Ok <==> from_utf8(v@) is Some, r is Ok ==> r->Ok_0@ == from_utf8(v@)->Some_0;
  /// `str::starts_with(&str)` (R5 shim: the Pattern trait is unstable)
  #[verifier::external_body] pub fn str_starts_with(s: &str, p: &str) -> (r: bool) ensures r == p@.is_prefix_of(s@) { s.starts_with(p) }
  impl RoaringBitmap {
    #[verifier::external_body] pub fn new() -> (r: Self) ensures members(&r) == Set::<u32>::empty() { unimplemented!() }
    #[verifier::external_body] pub fn contains(&self, value: u32) -> (r: bool) ensures r == members(self).contains(value) { unimplemented!() }
    #[verifier::external_body] pub fn insert(&mut self, value: u32) -> (r: bool)
      ensures members(final(self)) == members(old(self)).insert(value), r == !members(old(self)).contains(value) { unimplemented!() }
    #[verifier::external_body] pub fn remove(&mut self, value: u32) -> (r: bool)
      ensures members(final(self)) == members(old(self)).remove(value), r == members(old(self)).contains(value) { unimplemented!() }
    #[verifier::external_body] pub fn serialized_size(&self) -> usize { unimplemented!() }
    #[verifier::external_body] pub fn serialize_into_vec(&self, out: &mut Vec<u8>) -> (r: core::result::Result<(), std::io::Error>)
      ensures r is Ok ==> final(out)@ == old(out)@ + ser(members(self)) { unimplemented!() }
    #[verifier::external_body] pub fn deserialize_from(data: &[u8]) -> (r: core::result::Result<RoaringBitmap, std::io::Error>)
      ensures r is Ok <==> deser(data@) is Some, r is Ok ==> members(&r->Ok_0) == deser(data@)->Some_0 { unimplemented!() }
  }
}
use deps::*;
pub mod identity_core { pub mod error { use vstd::prelude::*; #[verifier::external_body] pub struct Error { _p: () } } }
#[verifier::external_body] pub struct BoxedError { _p: () }
pub enum RevocationError {
  BitmapDecodingError( std::io::Error),
  BitmapEncodingError( std::io::Error),
  InvalidService(&'static str),
  Base64DecodingError(String,  identity_core::error::Error),
  UrlConstructionError( BoxedError),
}
pub struct RevocationBitmap(pub RoaringBitmap);
pub exec const DATA_URL_PATTERN: &'static str ensures DATA_URL_PATTERN@ == "data:application/octet-stream;base64,"@ { "data:application/octet-stream;base64," }

pub open spec fn bm(b: &RevocationBitmap) -> Set<u32> { members(&b.0) }
/// the endpoint text of a bitmap in the current format, and in the legacy double-encoded form (issue #1291)
pub open spec fn encoded(s: Set<u32>) -> Seq<char> { b64url(zlib(ser(s))) }
pub open spec fn encoded_legacy(s: Set<u32>) -> Seq<char> { b64(utf8_of(encoded(s))) }

pub assume_specification<'a, T: ?Sized + ToOwned>[ Cow::<'a, T>::into_owned ](c: Cow<'a, T>) -> (r: T::Owned);
/// ASSUMED: dereferencing a Cow<str> / Cow::as_ref yields the text it stands for
pub open spec fn cow_str(c: Cow<'_, str>) -> Seq<char> { match c { Cow::Borrowed(b) => b@, Cow::Owned(o) => o@ } }
pub uninterp spec fn cow_deref<'a, 'b, T: ?Sized + ToOwned>(c: &'b Cow<'a, T>) -> &'b T;
pub assume_specification<'a, 'b, T: ?Sized + ToOwned>[ <Cow<'a, T> as core::ops::Deref>::deref ](c: &'b Cow<'a, T>) -> (r: &'b T) ensures r == cow_deref(c);
pub assume_specification<'a, 'b, T: ?Sized + ToOwned>[ <Cow<'a, T> as AsRef<T>>::as_ref ](c: &'b Cow<'a, T>) -> (r: &'b T) ensures r == cow_deref(c);
pub broadcast proof fn axiom_cow_deref_str(c: &Cow<'_, str>) ensures (#[trigger] cow_deref(c))@ == cow_str(*c) { admit(); }
/// thin wrappers over flate2 / BaseEncoding: ASSUMED contracts (the codecs are uninterpreted)
pub enum Base { Base64, Base64Url }
pub struct BaseEncoding;
impl BaseEncoding {
  #[verifier::external_body]
  pub fn encode_vec(data: &Vec<u8>, base: Base) -> (r: String) ensures r@ == (if base is Base64Url { b64url(data@) } else { b64(data@) }) { unimplemented!() }
  #[verifier::external_body]
  pub fn decode_str(data: &str, base: Base) -> (r: core::result::Result<Vec<u8>, identity_core::error::Error>)
    ensures
      base is Base64Url ==> (r is Ok <==> unb64url(data@) is Some) && (r is Ok ==> r->Ok_0@ == unb64url(data@)->Some_0),
      base is Base64 ==> (r is Ok <==> unb64(data@) is Some) && (r is Ok ==> r->Ok_0@ == unb64(data@)->Some_0),
  { unimplemented!() }
}

pub mod fns { use vstd::prelude::*; use std::borrow::Cow; use super::*;
broadcast use {deps::axiom_deser_ser, deps::axiom_unzlib_zlib, deps::axiom_unb64url_b64url, deps::axiom_zlib_header, deps::axiom_b64url_prefix, deps::axiom_unb64_b64, deps::axiom_from_utf8_utf8_of, deps::axiom_b64_of_ej, vxstd::axiom_str_ext, axiom_cow_deref_str};
impl RevocationBitmap {
  pub fn new() -> (r: Self)
    ensures bm(&r) == Set::<u32>::empty(),
  {
    Self(RoaringBitmap::new())
  }
  pub fn is_revoked(&self, index: u32) -> (r: bool)
    ensures r == bm(self).contains(index),
  {
    self.0.contains(index)
  }
  pub fn revoke(&mut self, index: u32) -> (r: bool)
    ensures bm(final(self)) == bm(old(self)).insert(index),
  {
    self.0.insert(index)
  }
  pub fn unrevoke(&mut self, index: u32) -> (r: bool)
    ensures bm(final(self)) == bm(old(self)).remove(index),
  {
    self.0.remove(index)
  }

  /// ASSUMED contracts of the two zlib wrappers (flate2 writers)
  #[verifier::external_body]
  fn compress_zlib(input: Vec<u8>) -> (r: Result<Vec<u8>, RevocationError>)
    ensures r is Ok ==> r->Ok_0@ == zlib(input@),
  { unimplemented!() }
  #[verifier::external_body]
  fn decompress_zlib(input: Vec<u8>) -> (r: Result<Vec<u8>, RevocationError>)
    ensures r is Ok <==> unzlib(input@) is Some, r is Ok ==> r->Ok_0@ == unzlib(input@)->Some_0,
  { unimplemented!() }

  fn serialize_vec(&self) -> (r: Result<Vec<u8>, RevocationError>)
    ensures r is Ok ==> r->Ok_0@ == ser(bm(self)),
  {
    let mut output: Vec<u8> = Vec::with_capacity(self.0.serialized_size());
    self
      .0
      .serialize_into_vec(&mut output)
      .map_err(|x_eta| -> (r_eta: RevocationError) ensures r_eta == RevocationError::BitmapEncodingError(x_eta) { RevocationError::BitmapEncodingError(x_eta) })?;
    Ok(output)
  }
  fn deserialize_slice(data: &[u8]) -> (r: Result<Self, RevocationError>)
    ensures r is Ok <==> deser(data@) is Some, r is Ok ==> bm(&r->Ok_0) == deser(data@)->Some_0,
  {
    RoaringBitmap::deserialize_from(data)
      .map_err(|x_eta| -> (r_eta: RevocationError) ensures r_eta == RevocationError::BitmapDecodingError(x_eta) { RevocationError::BitmapDecodingError(x_eta) })
      .map(|x_eta| -> (r_eta: Self) ensures r_eta == Self(x_eta) { Self(x_eta) })
  }
  pub(crate) fn serialize_compressed_base64(&self) -> (r: Result<String, RevocationError>)
    ensures r is Ok ==> r->Ok_0@ == encoded(bm(self)),
  {
    let serialized_data: Vec<u8> = self.serialize_vec()?;
    Self::compress_zlib(serialized_data).map(|data: Vec<u8>| -> (s: String) ensures s@ == b64url(data@) { BaseEncoding::encode_vec(&data, Base::Base64Url) })
  }

  pub(crate) fn deserialize_compressed_base64(data: &str) -> (r: Result<Self, RevocationError>)
    ensures
      // what serialize_compressed_base64 produces decodes back to the same set, whatever the set
      forall|s: Set<u32>| data@ == #[trigger] encoded(s) ==> r is Ok && bm(&r->Ok_0) == s,
      // endpoints in the legacy double-encoded form still decode
      forall|s: Set<u32>| data@ == #[trigger] encoded_legacy(s) ==> r is Ok && bm(&r->Ok_0) == s,
  { proof { reveal_strlit("eJ"); reveal_strlit("eJy"); } let ghost old_data = data; 
    // Fixes issue #1291.
    // Before this fix, revocation bitmaps had been encoded twice, like so:
    // Base64Url(Base64(compressed_bitmap)).
    // This fix checks if the encoded string it receives as input has undergone such process
    // and undo the inner Base64 encoding before processing the input further.
    let mut data = Cow::Borrowed(data);
    if !str_starts_with(&data, "eJ") {
      // Base64 encoded zlib default compression header
      let decoded = BaseEncoding::decode_str(&data, Base::Base64)
        .map_err(|e| RevocationError::Base64DecodingError(data.into_owned(), e))?;
      data = Cow::Owned(
        String::from_utf8(decoded)
          .map_err(|_unused| RevocationError::InvalidService("invalid data url - expected valid utf-8"))?,
      );
    }
     proof { assert forall|s: Set<u32>| old_data@ == #[trigger] encoded_legacy(s) implies cow_str(data) == encoded(s) by {
let e = encoded(s); assert(e.len() >= 3 && e[0] == 'e' && e[1] == 'J');
let l = b64(utf8_of(e)); assert(l[0] == 'Z');
assert(!"eJ"@.is_prefix_of(old_data@)) by { assert("eJ"@[0] == 'e'); }
} } let decoded_data: Vec<u8> = BaseEncoding::decode_str(&data, Base::Base64Url)
      .map_err(|e| RevocationError::Base64DecodingError(data.as_ref().to_owned(), e))?;
    let decompressed_data: Vec<u8> = Self::decompress_zlib(decoded_data)?;
    Self::deserialize_slice(&decompressed_data)
  }
}
} // mod fns

} // verus!
fn main() {}

