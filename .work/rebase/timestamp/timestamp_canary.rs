// Unit `timestamp` — serves C13 (+ C05 panic-freedom of the same functions).
use vstd::prelude::*;
verus! {

// ---- shared std prelude (assumed specifications of core/alloc items vstd does not cover) ----
pub mod vxstd {
use vstd::prelude::*;
/// Rust's `?` converts the error with `From::from`; vstd leaves `spec_from` uninterpreted.
pub broadcast proof fn axiom_question_mark_uses_from<F: From<E>, E>(e: E, r: F)
  ensures #[trigger] vstd::std_specs::control_flow::spec_from::<F, E>(e, r) ==> call_ensures(<F as From<E>>::from, (e,), r)
{ admit(); }
/// `str` values are determined by their characters (Verus compares string patterns by value, exec `==` by view).
pub broadcast proof fn axiom_str_ext(a: &str, b: &str)
  ensures #![trigger a@, b@] (a@ == b@) ==> a == b
{ admit(); }
/// `String == str` (also through references) compares the characters.
pub broadcast proof fn axiom_string_str_eq(a: &String, b: &str)
  ensures #![trigger a@, b@] <String as vstd::std_specs::cmp::PartialEqSpec<str>>::obeys_eq_spec()
    && <String as vstd::std_specs::cmp::PartialEqSpec<str>>::eq_spec(a, b) == (a@ == b@)
{ admit(); }
}
/// ASSUMED std spec: Option::or_else
pub assume_specification<T, F: FnOnce() -> Option<T>>[ Option::<T>::or_else ](o: Option<T>, f: F) -> (r: Option<T>)
  requires o is None ==> f.requires(()),
  ensures o is Some ==> r == o, o is None ==> f.ensures((), r);


// ---------------------------------------------------------------------------------------------
// Dependency boundary: the `time` crate (0.3.55), declared opaque with ASSUMED contracts taken
// from its documentation.  Mathematics of the calendar is an uninterpreted function `year_utc`.
// ---------------------------------------------------------------------------------------------
pub mod time {
  use vstd::prelude::*;
  #[verifier::external_body] #[derive(Clone, Copy)] pub struct OffsetDateTime { _p: () }
  #[verifier::external_body] #[derive(Clone, Copy)] pub struct Duration { _p: () }
  #[verifier::external_body] pub struct UtcOffset { _p: () }

  /// whole seconds since the unix epoch (floor), sub-second part, offset from UTC in seconds
  pub uninterp spec fn unix(d: OffsetDateTime) -> int;
  pub uninterp spec fn nanos(d: OffsetDateTime) -> int;
  pub uninterp spec fn offset_s(d: OffsetDateTime) -> int;
  pub uninterp spec fn off(o: UtcOffset) -> int;
  pub uninterp spec fn dur_ns(d: Duration) -> int;
  /// proleptic Gregorian year of the UTC date-time `u` seconds after the epoch
  pub uninterp spec fn year_utc(u: int) -> int;
  /// what an RFC 3339 string denotes (None: not RFC 3339): (unix seconds, nanoseconds, offset seconds)
  pub uninterp spec fn rfc3339_denotes(s: Seq<char>) -> Option<(int, int, int)>;
  pub uninterp spec fn rfc3339_text(d: OffsetDateTime) -> Seq<char>;

  pub open spec fn year(d: OffsetDateTime) -> int { year_utc(unix(d) + offset_s(d)) }
  pub open spec fn total_ns(d: OffsetDateTime) -> int { unix(d) * 1_000_000_000 + nanos(d) }
  /// the crate's representable range (feature `large-dates` off): years -9999 ..= 9999 in local time
  pub open spec fn repr_ok(u: int, offset: int) -> bool { -9999 <= year_utc(u + offset) <= 9999 }
  pub open spec fn odt_wf(d: OffsetDateTime) -> bool {
    0 <= nanos(d) < 1_000_000_000 && -86400 < offset_s(d) < 86400 && repr_ok(unix(d), offset_s(d))
  }

  pub const UNIX_MIN_0000: i64 = -62167219200;
  pub const UNIX_MAX_9999: i64 = 253402300799;
  pub const UNIX_MIN_REPR: i64 = -377705116800;

  /// ASSUMED calendar facts: year_utc is monotone and the year boundaries lie where the Gregorian
  /// calendar puts them.
  pub broadcast proof fn axiom_year_monotone(a: int, b: int)
    requires a <= b
    ensures #![trigger year_utc(a), year_utc(b)] year_utc(a) <= year_utc(b)
  { admit(); }
  pub proof fn axiom_year_boundaries()
    ensures
      year_utc(-62167219200) == 0, year_utc(-62167219201) == -1,
      year_utc(253402300799) == 9999, year_utc(253402300800) == 10000,
      year_utc(-377705116800) == -9999, year_utc(-377705116801) == -10000,
  { admit(); }
  /// derived (proved from the two axioms): the year window as a window on unix seconds
  pub broadcast proof fn lemma_year_window(u: int)
    ensures
      #![trigger year_utc(u)]
      (0 <= year_utc(u) <= 9999) <==> (-62167219200 <= u <= 253402300799),
      (-9999 <= year_utc(u) <= 9999) <==> (-377705116800 <= u <= 253402300799),
  {
    axiom_year_boundaries();
    if u <= -62167219201 { axiom_year_monotone(u, -62167219201); }
    if u >= -62167219200 { axiom_year_monotone(-62167219200, u); }
    if u <= 253402300799 { axiom_year_monotone(u, 253402300799); }
    if u >= 253402300800 { axiom_year_monotone(253402300800, u); }
    if u <= -377705116801 { axiom_year_monotone(u, -377705116801); }
    if u >= -377705116800 { axiom_year_monotone(-377705116800, u); }
  }

  pub mod error {
    use vstd::prelude::*;
    #[verifier::external_body] pub struct Parse { _p: () }
    #[verifier::external_body] pub struct ComponentRange { _p: () }
    #[verifier::external_body] pub struct OtherTimeError { _p: () }
    pub enum Format { InvalidComponent(&'static str), Other(OtherTimeError) }
    impl core::fmt::Debug for Format { #[verifier::external_body] fn fmt(&self, f: &mut core::fmt::Formatter<'_>) -> core::fmt::Result { unimplemented!() } }
    pub enum Error { Format(Format), Other(OtherTimeError) }
    impl From<Parse> for Error { #[verifier::external_body] fn from(e: Parse) -> Error { unimplemented!() } }
    impl From<ComponentRange> for Error { #[verifier::external_body] fn from(e: ComponentRange) -> Error { unimplemented!() } }
  }
  pub use error::Error;
  pub mod format_description { pub mod well_known { pub struct Rfc3339; } }

  impl UtcOffset {
    #[verifier::external_body]
    pub const UTC: UtcOffset = UtcOffset { _p: () };
  }
  /// ASSUMED: `UtcOffset::UTC` is the zero offset
  pub broadcast proof fn axiom_utc_is_zero() ensures #[trigger] off(UtcOffset::UTC) == 0 { admit(); }

  impl Duration {
    #[verifier::external_body] pub const fn nanoseconds(n: i64) -> (r: Duration) ensures dur_ns(r) == n { unimplemented!() }
    #[verifier::external_body] pub const fn microseconds(n: i64) -> (r: Duration) ensures dur_ns(r) == n * 1_000 { unimplemented!() }
    #[verifier::external_body] pub const fn milliseconds(n: i64) -> (r: Duration) ensures dur_ns(r) == n * 1_000_000 { unimplemented!() }
    #[verifier::external_body] pub const fn seconds(n: i64) -> (r: Duration) ensures dur_ns(r) == n * 1_000_000_000 { unimplemented!() }
    // documented: these panic on i64 overflow of the multiplication
    #[verifier::external_body] pub const fn minutes(n: i64) -> (r: Duration)
      requires i64::MIN <= n * 60 <= i64::MAX ensures dur_ns(r) == n * 60 * 1_000_000_000 { unimplemented!() }
    #[verifier::external_body] pub const fn hours(n: i64) -> (r: Duration)
      requires i64::MIN <= n * 3600 <= i64::MAX ensures dur_ns(r) == n * 3600 * 1_000_000_000 { unimplemented!() }
    #[verifier::external_body] pub const fn days(n: i64) -> (r: Duration)
      requires i64::MIN <= n * 86400 <= i64::MAX ensures dur_ns(r) == n * 86400 * 1_000_000_000 { unimplemented!() }
    #[verifier::external_body] pub const fn weeks(n: i64) -> (r: Duration)
      requires i64::MIN <= n * 604800 <= i64::MAX ensures dur_ns(r) == n * 604800 * 1_000_000_000 { unimplemented!() }
  }

  impl OffsetDateTime {
    /// documented: RFC 3339 has a four-digit local year, offsets below 24 h
    #[verifier::external_body]
    pub fn parse(input: &str, description: &format_description::well_known::Rfc3339) -> (r: Result<OffsetDateTime, error::Parse>)
      ensures
        r is Ok <==> rfc3339_denotes(input@) is Some,
        r is Ok ==> odt_wf(r->Ok_0) && 0 <= year(r->Ok_0) <= 9999
          && rfc3339_denotes(input@)->Some_0 == (unix(r->Ok_0), nanos(r->Ok_0), offset_s(r->Ok_0)),
    { unimplemented!() }
    /// documented panic: "if the local date-time in the new offset is outside the supported range"
    #[verifier::external_body]
    pub const fn to_offset(self, offset: UtcOffset) -> (r: OffsetDateTime)
      requires repr_ok(unix(self), off(offset)),
      ensures unix(r) == unix(self), nanos(r) == nanos(self), offset_s(r) == off(offset), odt_wf(self) ==> odt_wf(r),
    { unimplemented!() }
    #[verifier::external_body]
    pub const fn checked_to_offset(self, offset: UtcOffset) -> (r: Option<OffsetDateTime>)
      ensures
        r is Some <==> repr_ok(unix(self), off(offset)),
        r is Some ==> unix(r->Some_0) == unix(self) && nanos(r->Some_0) == nanos(self) && offset_s(r->Some_0) == off(offset)
          && (odt_wf(self) ==> odt_wf(r->Some_0)),
    { unimplemented!() }
    #[verifier::external_body]
    pub const fn nanosecond(self) -> (r: u32) ensures r == nanos(self) { unimplemented!() }
    #[verifier::external_body]
    pub const fn microsecond(self) -> (r: u32) ensures r == nanos(self) / 1_000 { unimplemented!() }
    #[verifier::external_body]
    pub const fn millisecond(self) -> (r: u16) ensures r == nanos(self) / 1_000_000 { unimplemented!() }
    #[verifier::external_body]
    pub const fn year(self) -> (r: i32) ensures r == year(self) { unimplemented!() }
    #[verifier::external_body]
    pub const fn unix_timestamp(self) -> (r: i64) ensures r == unix(self) { unimplemented!() }
    #[verifier::external_body]
    pub const fn from_unix_timestamp(timestamp: i64) -> (r: Result<OffsetDateTime, error::ComponentRange>)
      ensures
        r is Ok <==> repr_ok(timestamp as int, 0),
        r is Ok ==> unix(r->Ok_0) == timestamp && nanos(r->Ok_0) == 0 && offset_s(r->Ok_0) == 0 && odt_wf(r->Ok_0),
    { unimplemented!() }
    /// documented: formatting as RFC 3339 fails for years outside 0..=9999 and for offsets with a seconds part
    #[verifier::external_body]
    pub fn format(self, description: &format_description::well_known::Rfc3339) -> (r: Result<String, error::Format>)
      ensures
        r is Ok <==> (0 <= year(self) <= 9999 && offset_s(self) % 60 == 0),
        r is Ok ==> r->Ok_0@ == rfc3339_text(self),
    { unimplemented!() }
    #[verifier::external_body]
    pub const fn checked_add(self, duration: Duration) -> (r: Option<OffsetDateTime>)
      ensures
        r is Some <==> repr_ok((total_ns(self) + dur_ns(duration)) / 1_000_000_000, offset_s(self)),
        r is Some ==> unix(r->Some_0) == (total_ns(self) + dur_ns(duration)) / 1_000_000_000
          && nanos(r->Some_0) == (total_ns(self) + dur_ns(duration)) % 1_000_000_000
          && offset_s(r->Some_0) == offset_s(self) && (odt_wf(self) ==> odt_wf(r->Some_0)),
    { unimplemented!() }
    #[verifier::external_body]
    pub const fn checked_sub(self, duration: Duration) -> (r: Option<OffsetDateTime>)
      ensures
        r is Some <==> repr_ok((total_ns(self) - dur_ns(duration)) / 1_000_000_000, offset_s(self)),
        r is Some ==> unix(r->Some_0) == (total_ns(self) - dur_ns(duration)) / 1_000_000_000
          && nanos(r->Some_0) == (total_ns(self) - dur_ns(duration)) % 1_000_000_000
          && offset_s(r->Some_0) == offset_s(self) && (odt_wf(self) ==> odt_wf(r->Some_0)),
    { unimplemented!() }
    /// ASSUMED: the system clock is in UTC and lies in years 0000-9999
    #[verifier::external_body]
    pub fn now_utc() -> (r: OffsetDateTime)
      ensures odt_wf(r), offset_s(r) == 0, 0 <= year(r) <= 9999,
    { unimplemented!() }
  }

  // `OffsetDateTime - Duration` (documented panic: result out of range)
  impl vstd::std_specs::ops::SubSpecImpl<Duration> for OffsetDateTime {
    open spec fn obeys_sub_spec() -> bool { true }
    open spec fn sub_req(self, rhs: Duration) -> bool {
      repr_ok((total_ns(self) - dur_ns(rhs)) / 1_000_000_000, offset_s(self))
    }
    uninterp spec fn sub_spec(self, rhs: Duration) -> OffsetDateTime;
  }
  impl core::ops::Sub<Duration> for OffsetDateTime {
    type Output = OffsetDateTime;
    #[verifier::external_body]
    fn sub(self, rhs: Duration) -> OffsetDateTime { unimplemented!() }
  }
  pub broadcast proof fn axiom_sub(a: OffsetDateTime, d: Duration)
    ensures ({
      let r = #[trigger] vstd::std_specs::ops::SubSpec::sub_spec(a, d);
      &&& unix(r) == (total_ns(a) - dur_ns(d)) / 1_000_000_000
      &&& nanos(r) == (total_ns(a) - dur_ns(d)) % 1_000_000_000
      &&& offset_s(r) == offset_s(a)
    })
  { admit(); }
}

// other foreign types appearing in identity_core::Error (opaque)
pub mod serde_json { use vstd::prelude::*; #[verifier::external_body] pub struct Error { _p: () } }
pub mod multibase { use vstd::prelude::*; #[verifier::external_body] pub struct Error { _p: () } }
pub mod url { use vstd::prelude::*; #[verifier::external_body] pub struct ParseError { _p: () } }
#[verifier::external_body] pub struct Base { _p: () }


use time::format_description::well_known::Rfc3339;
use time::OffsetDateTime;
use time::UtcOffset;
broadcast use {time::axiom_sub, time::axiom_utc_is_zero, time::lemma_year_window, vxstd::axiom_question_mark_uses_from};

pub type Result<T, E = Error> = ::core::result::Result<T, E>;
pub enum Error {
  EncodeJSON( serde_json::Error),
  DecodeJSON( serde_json::Error),
  DecodeBase(Base,  multibase::Error),
  DecodeMultibase( multibase::Error),
  InvalidUrl( url::ParseError),
  InvalidTimestamp( time::error::Error),
  OneOrSetEmpty,
  OrderedSetDuplicate,
}
#[derive(Clone, Copy)]
pub struct Timestamp(pub OffsetDateTime);
#[derive(Clone, Copy)]
pub struct Duration(pub time::Duration);

impl core::fmt::Debug for Error { #[verifier::external_body] fn fmt(&self, f: &mut core::fmt::Formatter<'_>) -> core::fmt::Result { unimplemented!() } }

/// Type invariant of `Timestamp` demanded by C13: whole-second UTC instant in years 0000-9999.
pub open spec fn ts_wf(t: Timestamp) -> bool {
  time::offset_s(t.0) == 0 && time::nanos(t.0) == 0 && 0 <= time::year(t.0) <= 9999 && time::odt_wf(t.0)
}
pub open spec fn ts_unix(t: Timestamp) -> int { time::unix(t.0) }
pub open spec fn in_window(u: int) -> bool { -62167219200 <= u <= 253402300799 }
/// Durations built by the public constructors: whole, non-negative seconds
pub open spec fn dur_wf(d: Duration) -> bool { time::dur_ns(d.0) >= 0 && time::dur_ns(d.0) % 1_000_000_000 == 0 }
pub open spec fn dur_s(d: Duration) -> int { time::dur_ns(d.0) / 1_000_000_000 }

impl Timestamp {
  pub fn parse(input: &str) -> (r: Result<Self>)
    ensures
      r is Ok ==> ts_wf(r->Ok_0) && in_window(ts_unix(r->Ok_0)),
      // the instant denoted by the string, truncated to the second
      r is Ok ==> time::rfc3339_denotes(input@) is Some && ts_unix(r->Ok_0) == time::rfc3339_denotes(input@)->Some_0.0,
      time::rfc3339_denotes(input@) is None ==> r is Err,
  {
    let offset_date_time = OffsetDateTime::parse(input, &Rfc3339)
      .map_err(|x_eta| -> (r_eta: _) requires call_requires(time::Error::from, (x_eta,)) ensures call_ensures(time::Error::from, (x_eta,), r_eta) { time::Error::from(x_eta) })
      .map_err(|x_eta| -> (r_eta: Error) ensures r_eta == Error::InvalidTimestamp(x_eta) { Error::InvalidTimestamp(x_eta) })?
      .checked_to_offset(UtcOffset::UTC)
      .ok_or(Error::InvalidTimestamp(time::error::Error::Format(
        time::error::Format::InvalidComponent("invalid year"),
      )))?;

    // The local year is within 0000AD - 9999AD per Rfc3339, but normalizing to UTC can move the
    // instant out of that range, see `from_unix`.
    if !(0..10_000).contains(&offset_date_time.year()) {
      return Err(Error::InvalidTimestamp(time::error::Error::Format(
        time::error::Format::InvalidComponent("invalid year"),
      )));
    }
    Ok(Timestamp(truncate_fractional_seconds(offset_date_time)))
  }
  pub fn parse__canary(input: &str) -> (r: Result<Self>)
    ensures
      r is Ok ==> ts_wf(r->Ok_0) && in_window(ts_unix(r->Ok_0)),
      // the instant denoted by the string, truncated to the second
      r is Ok ==> time::rfc3339_denotes(input@) is Some && ts_unix(r->Ok_0) == time::rfc3339_denotes(input@)->Some_0.0,
      time::rfc3339_denotes(input@) is None ==> r is Err,
      false,
  {
    let offset_date_time = OffsetDateTime::parse(input, &Rfc3339)
      .map_err(|x_eta| -> (r_eta: _) requires call_requires(time::Error::from, (x_eta,)) ensures call_ensures(time::Error::from, (x_eta,), r_eta) { time::Error::from(x_eta) })
      .map_err(|x_eta| -> (r_eta: Error) ensures r_eta == Error::InvalidTimestamp(x_eta) { Error::InvalidTimestamp(x_eta) })?
      .checked_to_offset(UtcOffset::UTC)
      .ok_or(Error::InvalidTimestamp(time::error::Error::Format(
        time::error::Format::InvalidComponent("invalid year"),
      )))?;

    // The local year is within 0000AD - 9999AD per Rfc3339, but normalizing to UTC can move the
    // instant out of that range, see `from_unix`.
    if !(0..10_000).contains(&offset_date_time.year()) {
      return Err(Error::InvalidTimestamp(time::error::Error::Format(
        time::error::Format::InvalidComponent("invalid year"),
      )));
    }
    Ok(Timestamp(truncate_fractional_seconds(offset_date_time)))
  }

  pub fn now_utc() -> (r: Self)
    ensures ts_wf(r),
  {
    Self(truncate_fractional_seconds(OffsetDateTime::now_utc()))
  }
  pub fn now_utc__canary() -> (r: Self)
    ensures ts_wf(r),
      false,
  {
    Self(truncate_fractional_seconds(OffsetDateTime::now_utc()))
  }

  pub fn to_rfc3339(&self) -> (r: String)
    requires ts_wf(*self),
    ensures r@ == time::rfc3339_text(self.0),
  {
    // expect is okay, constructors ensure RFC 3339 compatible timestamps.
    // Making this fallible would break our interface such as From<Timestamp> for String.
    self.0.format(&Rfc3339).expect("Timestamp incompatible with RFC 3339")
  }
  pub fn to_rfc3339__canary(&self) -> (r: String)
    requires ts_wf(*self),
    ensures r@ == time::rfc3339_text(self.0),
      false,
  {
    // expect is okay, constructors ensure RFC 3339 compatible timestamps.
    // Making this fallible would break our interface such as From<Timestamp> for String.
    self.0.format(&Rfc3339).expect("Timestamp incompatible with RFC 3339")
  }

  pub fn to_unix(&self) -> (r: i64)
    ensures r == ts_unix(*self),
  {
    self.0.unix_timestamp()
  }
  pub fn to_unix__canary(&self) -> (r: i64)
    ensures r == ts_unix(*self),
      false,
  {
    self.0.unix_timestamp()
  }

  pub fn from_unix(seconds: i64) -> (r: Result<Self>)
    ensures
      r is Ok <==> in_window(seconds as int),
      r is Ok ==> ts_wf(r->Ok_0) && ts_unix(r->Ok_0) == seconds,
  {
    let offset_date_time = OffsetDateTime::from_unix_timestamp(seconds)
      .map_err(|x_eta| -> (r_eta: _) requires call_requires(time::error::Error::from, (x_eta,)) ensures call_ensures(time::error::Error::from, (x_eta,), r_eta) { time::error::Error::from(x_eta) })
      .map_err(|x_eta| -> (r_eta: Error) ensures r_eta == Error::InvalidTimestamp(x_eta) { Error::InvalidTimestamp(x_eta) })?;

    // Reject years outside of the range 0000AD - 9999AD per Rfc3339
    // upfront to prevent conversion errors in to_rfc3339().
    // https://datatracker.ietf.org/doc/html/rfc3339#section-1
    if !(0..10_000).contains(&offset_date_time.year()) {
      return Err(Error::InvalidTimestamp(time::error::Error::Format(
        time::error::Format::InvalidComponent("invalid year"),
      )));
    }
    Ok(Self(offset_date_time))
  }
  pub fn from_unix__canary(seconds: i64) -> (r: Result<Self>)
    ensures
      r is Ok <==> in_window(seconds as int),
      r is Ok ==> ts_wf(r->Ok_0) && ts_unix(r->Ok_0) == seconds,
      false,
  {
    let offset_date_time = OffsetDateTime::from_unix_timestamp(seconds)
      .map_err(|x_eta| -> (r_eta: _) requires call_requires(time::error::Error::from, (x_eta,)) ensures call_ensures(time::error::Error::from, (x_eta,), r_eta) { time::error::Error::from(x_eta) })
      .map_err(|x_eta| -> (r_eta: Error) ensures r_eta == Error::InvalidTimestamp(x_eta) { Error::InvalidTimestamp(x_eta) })?;

    // Reject years outside of the range 0000AD - 9999AD per Rfc3339
    // upfront to prevent conversion errors in to_rfc3339().
    // https://datatracker.ietf.org/doc/html/rfc3339#section-1
    if !(0..10_000).contains(&offset_date_time.year()) {
      return Err(Error::InvalidTimestamp(time::error::Error::Format(
        time::error::Format::InvalidComponent("invalid year"),
      )));
    }
    Ok(Self(offset_date_time))
  }

  pub fn checked_add(self, duration: Duration) -> (r: Option<Self>)
    requires ts_wf(self), dur_wf(duration),
    ensures
      r is Some <==> in_window(ts_unix(self) + dur_s(duration)),
      r is Some ==> ts_wf(r->Some_0) && ts_unix(r->Some_0) == ts_unix(self) + dur_s(duration),
  {
    self
      .0
      .checked_add(duration.0)
      .and_then(|offset_date_time: OffsetDateTime| -> (o: Option<Timestamp>) ensures o is Some <==> in_window(time::unix(offset_date_time)), o is Some ==> ts_wf(o->Some_0) && ts_unix(o->Some_0) == time::unix(offset_date_time) { Self::from_unix(offset_date_time.unix_timestamp()).ok() })
  }
  pub fn checked_add__canary(self, duration: Duration) -> (r: Option<Self>)
    requires ts_wf(self), dur_wf(duration),
    ensures
      r is Some <==> in_window(ts_unix(self) + dur_s(duration)),
      r is Some ==> ts_wf(r->Some_0) && ts_unix(r->Some_0) == ts_unix(self) + dur_s(duration),
      false,
  {
    self
      .0
      .checked_add(duration.0)
      .and_then(|offset_date_time: OffsetDateTime| -> (o: Option<Timestamp>) ensures o is Some <==> in_window(time::unix(offset_date_time)), o is Some ==> ts_wf(o->Some_0) && ts_unix(o->Some_0) == time::unix(offset_date_time) { Self::from_unix(offset_date_time.unix_timestamp()).ok() })
  }

  pub fn checked_sub(self, duration: Duration) -> (r: Option<Self>)
    requires ts_wf(self), dur_wf(duration),
    ensures
      r is Some <==> in_window(ts_unix(self) - dur_s(duration)),
      r is Some ==> ts_wf(r->Some_0) && ts_unix(r->Some_0) == ts_unix(self) - dur_s(duration),
  {
    self
      .0
      .checked_sub(duration.0)
      .and_then(|offset_date_time: OffsetDateTime| -> (o: Option<Timestamp>) ensures o is Some <==> in_window(time::unix(offset_date_time)), o is Some ==> ts_wf(o->Some_0) && ts_unix(o->Some_0) == time::unix(offset_date_time) { Self::from_unix(offset_date_time.unix_timestamp()).ok() })
  }
  pub fn checked_sub__canary(self, duration: Duration) -> (r: Option<Self>)
    requires ts_wf(self), dur_wf(duration),
    ensures
      r is Some <==> in_window(ts_unix(self) - dur_s(duration)),
      r is Some ==> ts_wf(r->Some_0) && ts_unix(r->Some_0) == ts_unix(self) - dur_s(duration),
      false,
  {
    self
      .0
      .checked_sub(duration.0)
      .and_then(|offset_date_time: OffsetDateTime| -> (o: Option<Timestamp>) ensures o is Some <==> in_window(time::unix(offset_date_time)), o is Some ==> ts_wf(o->Some_0) && ts_unix(o->Some_0) == time::unix(offset_date_time) { Self::from_unix(offset_date_time.unix_timestamp()).ok() })
  }
}

fn truncate_fractional_seconds(offset_date_time: OffsetDateTime) -> (r: OffsetDateTime)
  requires time::odt_wf(offset_date_time),
  ensures time::unix(r) == time::unix(offset_date_time), time::nanos(r) == 0,
    time::offset_s(r) == time::offset_s(offset_date_time), time::odt_wf(r),
{
  offset_date_time - time::Duration::nanoseconds(offset_date_time.nanosecond() as i64)
}
fn truncate_fractional_seconds__canary(offset_date_time: OffsetDateTime) -> (r: OffsetDateTime)
  requires time::odt_wf(offset_date_time),
  ensures time::unix(r) == time::unix(offset_date_time), time::nanos(r) == 0,
    time::offset_s(r) == time::offset_s(offset_date_time), time::odt_wf(r),
    false,
{
  offset_date_time - time::Duration::nanoseconds(offset_date_time.nanosecond() as i64)
}

impl Duration {
  pub const fn seconds(seconds: u32) -> (r: Self)
    ensures dur_wf(r), dur_s(r) == seconds,
  {
    Self(time::Duration::seconds(seconds as i64))
  }
  pub const fn seconds__canary(seconds: u32) -> (r: Self)
    ensures dur_wf(r), dur_s(r) == seconds,
      false,
  {
    Self(time::Duration::seconds(seconds as i64))
  }
  pub const fn minutes(minutes: u32) -> (r: Self)
    ensures dur_wf(r), dur_s(r) == minutes * 60,
  {
    Self(time::Duration::minutes(minutes as i64))
  }
  pub const fn minutes__canary(minutes: u32) -> (r: Self)
    ensures dur_wf(r), dur_s(r) == minutes * 60,
      false,
  {
    Self(time::Duration::minutes(minutes as i64))
  }
  pub const fn days(days: u32) -> (r: Self)
    ensures dur_wf(r), dur_s(r) == days * 86400,
  {
    Self(time::Duration::days(days as i64))
  }
  pub const fn days__canary(days: u32) -> (r: Self)
    ensures dur_wf(r), dur_s(r) == days * 86400,
      false,
  {
    Self(time::Duration::days(days as i64))
  }
  pub const fn hours(hours: u32) -> (r: Self)
    ensures dur_wf(r), dur_s(r) == hours * 3600,
  {
    Self(time::Duration::hours(hours as i64))
  }
  pub const fn hours__canary(hours: u32) -> (r: Self)
    ensures dur_wf(r), dur_s(r) == hours * 3600,
      false,
  {
    Self(time::Duration::hours(hours as i64))
  }
  pub const fn weeks(weeks: u32) -> (r: Self)
    ensures dur_wf(r), dur_s(r) == weeks * 604800,
  {
    Self(time::Duration::weeks(weeks as i64))
  }
  pub const fn weeks__canary(weeks: u32) -> (r: Self)
    ensures dur_wf(r), dur_s(r) == weeks * 604800,
      false,
  {
    Self(time::Duration::weeks(weeks as i64))
  }
}

} // verus!
fn main() {}

