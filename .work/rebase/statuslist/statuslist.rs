// Unit `statuslist` — serves C12 (and the C05 panic-freedom obligations of the same functions).
// Everything between `//@fn` and `//@end` is contract text; function headers and bodies are copied
// from /repo at generation time.
#![feature(allocator_api)]
use vstd::prelude::*;
verus! {


// ---- shared std prelude (assumed specifications of core/alloc items vstd does not cover) ----
/// Rust's `?` converts the error with `From::from`; vstd leaves `spec_from` uninterpreted.
pub broadcast proof fn axiom_question_mark_uses_from<F: From<E>, E>(e: E, r: F)
  ensures #[trigger] vstd::std_specs::control_flow::spec_from::<F, E>(e, r) ==> call_ensures(<F as From<E>>::from, (e,), r)
{ admit(); }

pub assume_specification<T>[ bool::then_some ](b: bool, t: T) -> (r: Option<T>)
  ensures r == (if b { Some(t) } else { None::<T> });

pub assume_specification<T, A: core::alloc::Allocator>[ Vec::<T, A>::into_boxed_slice ](v: Vec<T, A>) -> (r: Box<[T], A>)
  ensures r@ == v@;

pub mod lem {
use vstd::prelude::*;
// entry k of a byte, most significant bit first (the StatusList2021 bit order)
pub open spec fn bit(b: u8, off: int) -> bool { (b & (0x80u8 >> (off as u8))) != 0 }
/// entry i of a byte string read as a bit vector
pub open spec fn ent(bytes: Seq<u8>, i: int) -> bool { bit(bytes[i / 8], i % 8) }
proof fn lemma_or(b: u8, off: u8, k: u8) by (bit_vector) requires off < 8, k < 8
  ensures ((b | (0x80u8 >> off)) & (0x80u8 >> k) != 0) == (k == off || (b & (0x80u8 >> k)) != 0) {}
proof fn lemma_and(b: u8, off: u8, k: u8) by (bit_vector) requires off < 8, k < 8
  ensures ((b & !(0x80u8 >> off)) & (0x80u8 >> k) != 0) == (k != off && (b & (0x80u8 >> k)) != 0) {}
proof fn lemma_zero(k: u8) by (bit_vector) requires k < 8 ensures (0u8 & (0x80u8 >> k)) == 0 {}
pub broadcast proof fn lemma_or_b(b: u8, off: usize, k: int) requires off < 8, 0 <= k < 8
  ensures #[trigger] bit(b | (0x80u8 >> off), k) == (k == off || bit(b,k)) { lemma_or(b, off as u8, k as u8); }
pub broadcast proof fn lemma_and_b(b: u8, off: usize, k: int) requires off < 8, 0 <= k < 8
  ensures #[trigger] bit(b & !(0x80u8 >> off), k) == (k != off && bit(b,k)) { lemma_and(b, off as u8, k as u8); }
pub broadcast proof fn lemma_zero_b(k: int) requires 0 <= k < 8
  ensures !(#[trigger] bit(0u8, k)) { lemma_zero(k as u8); }
}

pub mod status_list {
use vstd::prelude::*;
use super::lem::*;
broadcast use {lemma_or_b, lemma_and_b, lemma_zero_b};

const MINIMUM_LIST_SIZE: usize = 16 * 1024 * 8;
pub enum StatusListError {
  IndexOutOfBounds,
  InvalidEncoding(String),
  InvalidListSize,
}
pub struct StatusList2021(Box<[u8]>);

impl StatusList2021 {
  pub closed spec fn view(&self) -> Seq<u8> { self.0@ }
  /// number of entries of the abstract bit vector
  pub open spec fn nbits(&self) -> int { (self@.len() * 8) as int }
  /// value of entry i
  pub open spec fn entry(&self, i: int) -> bool { ent(self@, i) }
  /// representation assumption: the byte store is small enough for `len()` not to overflow
  pub open spec fn fits(&self) -> bool { self@.len() * 8 <= usize::MAX }

  pub fn new(num_entries: usize) -> (r: Result<Self, StatusListError>)
    ensures
      num_entries < 131072 ==> r == Err::<StatusList2021, StatusListError>(StatusListError::InvalidListSize),
      num_entries >= 131072 ==> r is Ok
        && r->Ok_0.nbits() >= num_entries && r->Ok_0.nbits() < num_entries + 8 && r->Ok_0.nbits() % 8 == 0
        && (forall|j: int| 0 <= j < r->Ok_0.nbits() ==> !ent(r->Ok_0@, j)),
  {
    if num_entries < MINIMUM_LIST_SIZE {
      return Err(StatusListError::InvalidListSize);
    }

    let size = num_entries / 8 + (num_entries % 8 != 0) as usize;
    let store = vec![0; size];

    Ok(StatusList2021(store.into_boxed_slice()))
  }

  pub const fn len(&self) -> (r: usize)
    requires self.fits(),
    ensures r == self.nbits(),
  {
    self.0.len() * 8
  }

  const fn get_unchecked(&self, index: usize) -> (r: bool)
    requires index < self.nbits(),
    ensures r == ent(self@, index as int),
  {
    let (i, offset) = Self::entry_index_to_store_index(index);
    self.0[i] & (0b1000_0000 >> offset) != 0
  }

  fn set_unchecked(&mut self, index: usize, value: bool)
    requires index < old(self).nbits(),
    ensures
      final(self)@.len() == old(self)@.len(),
      ent(final(self)@, index as int) == value,
      forall|j: int| 0 <= j < old(self).nbits() && j != index ==> ent(final(self)@, j) == ent(old(self)@, j),
  {
    let (i, offset) = Self::entry_index_to_store_index(index);
    if value {
      self.0[i] |= 0b1000_0000 >> offset
    } else {
      self.0[i] &= !(0b1000_0000 >> offset)
    }
  }

  pub fn get(&self, index: usize) -> (r: Result<bool, StatusListError>)
    requires self.fits(),
    ensures
      index < self.nbits() ==> r == Ok::<bool, StatusListError>(ent(self@, index as int)),
      index >= self.nbits() ==> r == Err::<bool, StatusListError>(StatusListError::IndexOutOfBounds),
  {
    (index < self.len())
      .then(|| -> (x: bool) requires index < self.nbits() ensures x == ent(self@, index as int) { self.get_unchecked(index) })
      .ok_or(StatusListError::IndexOutOfBounds)
  }

  pub fn set(&mut self, index: usize, value: bool) -> (r: Result<(), StatusListError>)
    requires old(self).fits(),
    ensures
      final(self)@.len() == old(self)@.len(),
      index < old(self).nbits() ==> r is Ok
        && ent(final(self)@, index as int) == value
        && (forall|j: int| 0 <= j < old(self).nbits() && j != index ==> ent(final(self)@, j) == ent(old(self)@, j)),
      index >= old(self).nbits() ==> r == Err::<(), StatusListError>(StatusListError::IndexOutOfBounds)
        && final(self)@ == old(self)@,
  {
    if index < self.len() {
      self.set_unchecked(index, value);
      Ok(())
    } else {
      Err(StatusListError::IndexOutOfBounds)
    }
  }

  const fn entry_index_to_store_index(index: usize) -> (r: (usize, usize))
    ensures r.0 == index / 8, r.1 == index % 8,
  {
    (index / 8, index % 8)
  }

  // ---- codec boundary (gzip + base64): NOT verified, assumed to be a partial inverse pair ----
  #[verifier::external_body]
  pub fn try_from_encoded_str(s: &str) -> (r: Result<Self, StatusListError>)
    ensures
      r is Ok <==> dec(s@) is Some,
      r is Ok ==> r->Ok_0@ == dec(s@)->Some_0 && r->Ok_0.fits(),
  { unimplemented!() }
  #[verifier::external_body]
  pub fn into_encoded_str(self) -> (r: String)
    ensures r@ == enc(self@),
  { unimplemented!() }
}
pub uninterp spec fn enc(bytes: Seq<u8>) -> Seq<char>;
pub uninterp spec fn dec(s: Seq<char>) -> Option<Seq<u8>>;
/// assumed: decoding what `into_encoded_str` produced gives back the same bytes
pub broadcast proof fn axiom_dec_enc(bytes: Seq<u8>)
  ensures #[trigger] dec(enc(bytes)) == Some(bytes)
{ admit(); }
} // mod status_list

pub mod credential {
use vstd::prelude::*;
use super::status_list::*;
use super::lem::*;
broadcast use {axiom_dec_enc, super::axiom_question_mark_uses_from};

#[verifier::external_body] pub struct Credential { _p: () }
#[verifier::external_body] pub struct Url { _p: () }

pub enum StatusList2021CredentialError {
  MultipleCredentialSubject,
  InvalidProperty(&'static str),
  MissingProperty(&'static str),
  StatusListError( StatusListError),
  Unreferenceable,
  UnreversibleRevocation,
}
pub struct StatusList2021Credential {
  pub inner: Credential,
  pub subject: StatusList2021CredentialSubject,
}
pub struct MutStatusList {
  pub status_list: StatusList2021,
  pub purpose: StatusPurpose,
}
#[derive(Clone, Copy, PartialEq, Eq)]
pub enum CredentialStatus {
  Revoked,
  Suspended,
  Valid,
}
#[derive(Clone, Copy, PartialEq, Eq)]
pub enum StatusPurpose {
  Revocation,
  Suspension,
}
pub struct StatusList2021CredentialSubject {
  pub status_purpose: StatusPurpose,
  pub encoded_list: String,
  pub id: Option<Url>,
}

impl vstd::std_specs::cmp::PartialEqSpecImpl for StatusPurpose {
  open spec fn obeys_eq_spec() -> bool { true }
  open spec fn eq_spec(&self, other: &StatusPurpose) -> bool { *self == *other }
}
// thiserror's `#[from]` on StatusList2021CredentialError::StatusListError (assumed structural)
impl vstd::std_specs::convert::FromSpecImpl<StatusListError> for StatusList2021CredentialError {
  open spec fn obeys_from_spec() -> bool { true }
  open spec fn from_spec(e: StatusListError) -> Self { StatusList2021CredentialError::StatusListError(e) }
}
impl From<StatusListError> for StatusList2021CredentialError {
  fn from(e: StatusListError) -> (r: Self) ensures r == StatusList2021CredentialError::StatusListError(e) {
    StatusList2021CredentialError::StatusListError(e)
  }
}

/// the decoded abstract list of a credential (None if the stored string does not decode)
pub open spec fn cred_bytes(c: &StatusList2021Credential) -> Option<Seq<u8>> { dec(c.subject.encoded_list@) }
impl MutStatusList {
  pub fn set_entry(&mut self, index: usize, value: bool) -> (r: Result<(), StatusList2021CredentialError>)
    requires old(self).status_list.fits(),
    ensures
      final(self).purpose == old(self).purpose,
      final(self).status_list@.len() == old(self).status_list@.len(),
      // out of range: error, unchanged
      index >= old(self).status_list.nbits() ==> r is Err && final(self).status_list@ == old(self).status_list@,
      // one-way revocation
      (index < old(self).status_list.nbits() && old(self).purpose == StatusPurpose::Revocation && !value
          && ent(old(self).status_list@, index as int))
        ==> r == Err::<(), StatusList2021CredentialError>(StatusList2021CredentialError::UnreversibleRevocation)
            && final(self).status_list@ == old(self).status_list@,
      // otherwise the write happens, on exactly that entry
      (index < old(self).status_list.nbits() && !(old(self).purpose == StatusPurpose::Revocation && !value
          && ent(old(self).status_list@, index as int)))
        ==> r is Ok && ent(final(self).status_list@, index as int) == value
            && (forall|j: int| 0 <= j < old(self).status_list.nbits() && j != index
                  ==> ent(final(self).status_list@, j) == ent(old(self).status_list@, j)),
  {
    let entry_status = self.status_list.get(index)?;
    if self.purpose == StatusPurpose::Revocation && !value && entry_status {
      return Err(StatusList2021CredentialError::UnreversibleRevocation);
    }
    self.status_list.set(index, value)?;
    Ok(())
  }
}

impl StatusList2021Credential {
  pub fn purpose(&self) -> (r: StatusPurpose)
    ensures r == self.subject.status_purpose,
  {
    self.subject.status_purpose
  }

  fn status_list(&self) -> (r: Result<StatusList2021, StatusListError>)
    ensures
      r is Ok <==> cred_bytes(self) is Some,
      r is Ok ==> r->Ok_0@ == cred_bytes(self)->Some_0 && r->Ok_0.fits(),
  {
    StatusList2021::try_from_encoded_str(&self.subject.encoded_list)
  }

  pub(crate) fn set_entry(&mut self, index: usize, value: bool) -> (r: Result<(), StatusList2021CredentialError>)
    ensures
      final(self).subject.status_purpose == old(self).subject.status_purpose,
      cred_bytes(old(self)) is None ==> r is Err,
      r is Err ==> final(self).subject.encoded_list@ == old(self).subject.encoded_list@,
      cred_bytes(old(self)) is Some ==> {
        let b = cred_bytes(old(self))->Some_0;
        let n = b.len() * 8;
        &&& index >= n ==> r is Err
        &&& (index < n && old(self).subject.status_purpose == StatusPurpose::Revocation && !value && ent(b, index as int))
              ==> r == Err::<(), StatusList2021CredentialError>(StatusList2021CredentialError::UnreversibleRevocation)
        &&& (index < n && !(old(self).subject.status_purpose == StatusPurpose::Revocation && !value && ent(b, index as int)))
              ==> r is Ok && cred_bytes(final(self)) is Some && {
                let b2 = cred_bytes(final(self))->Some_0;
                &&& b2.len() == b.len()
                &&& ent(b2, index as int) == value
                &&& forall|j: int| 0 <= j < n && j != index ==> ent(b2, j) == ent(b, j)
              }
      },
  {
    let mut status_list = self.status_list()?;
    let entry_status = status_list.get(index)?;
    if self.purpose() == StatusPurpose::Revocation && !value && entry_status {
      return Err(StatusList2021CredentialError::UnreversibleRevocation);
    }
    status_list.set(index, value)?;
    self.subject.encoded_list = status_list.into_encoded_str();

    Ok(())
  }

  pub fn entry(&self, index: usize) -> (r: Result<CredentialStatus, StatusList2021CredentialError>)
    ensures
      cred_bytes(self) is None ==> r is Err,
      cred_bytes(self) is Some ==> {
        let b = cred_bytes(self)->Some_0;
        &&& index >= b.len() * 8 ==> r is Err
        &&& index < b.len() * 8 ==> r is Ok && r->Ok_0 == (
              if !ent(b, index as int) { CredentialStatus::Valid }
              else if self.subject.status_purpose == StatusPurpose::Revocation { CredentialStatus::Revoked }
              else { CredentialStatus::Suspended })
      },
  {
    let status_list = self.status_list()?;
    Ok(match (self.purpose(), status_list.get(index)?) {
      (StatusPurpose::Revocation, true) => CredentialStatus::Revoked,
      (StatusPurpose::Suspension, true) => CredentialStatus::Suspended,
      _ => CredentialStatus::Valid,
    })
  }
}
} // mod credential

} // verus!
fn main() {}

