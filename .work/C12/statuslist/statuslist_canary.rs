// Unit `statuslist` — serves C12 (and the C05 panic-freedom obligations of the same functions).
// Everything between `//@fn` and `//@end` is contract text; function headers and bodies are copied
// from /repo at generation time.
#![feature(allocator_api)]
use vstd::prelude::*;
verus! {


pub assume_specification<T>[ bool::then_some ](b: bool, t: T) -> (r: Option<T>)
  ensures r == (if b { Some(t) } else { None::<T> });

pub assume_specification<T, A: core::alloc::Allocator>[ Vec::<T, A>::into_boxed_slice ](v: Vec<T, A>) -> (r: Box<[T], A>)
  ensures r@ == v@;

pub mod lem {
use vstd::prelude::*;
// entry k of a byte, most significant bit first (the StatusList2021 bit order)
pub open spec fn bit(b: u8, off: int) -> bool { (b & (0x80u8 >> (off as u8))) != 0 }
proof fn lemma_or(b: u8, off: u8, k: u8) by (bit_vector) requires off < 8, k < 8
  ensures ((b | (0x80u8 >> off)) & (0x80u8 >> k) != 0) == (k == off || (b & (0x80u8 >> k)) != 0) {}
proof fn lemma_and(b: u8, off: u8, k: u8) by (bit_vector) requires off < 8, k < 8
  ensures ((b & !(0x80u8 >> off)) & (0x80u8 >> k) != 0) == (k != off && (b & (0x80u8 >> k)) != 0) {}
proof fn lemma_zero(k: u8) by (bit_vector) requires k < 8 ensures (0u8 & (0x80u8 >> k)) == 0 {}
pub broadcast proof fn lemma_or_b(b: u8, off: usize, k: int) requires off < 8, 0 <= k < 8
  ensures #[trigger] bit(b | (0x80u8 >> off), k) == (k == off || bit(b,k)) { lemma_or(b, off as u8, k as u8); }
pub broadcast proof fn lemma_and_b(b: u8, off: usize, k: int) requires off < 8, 0 <= k < 8
  ensures #[trigger] bit(b & !(0x80u8 >> off), k) == (k != off && bit(b,k)) { lemma_and(b, off as u8, k as u8); }
pub broadcast proof fn lemma_zero_b(k: int) requires 0 <= k < 8
  ensures !(#[trigger] bit(0u8, k)) { lemma_zero(k as u8); }
}

pub mod status_list {
use vstd::prelude::*;
use super::lem::*;
broadcast use {lemma_or_b, lemma_and_b, lemma_zero_b};

const MINIMUM_LIST_SIZE: usize = 16 * 1024 * 8;
pub enum StatusListError {
  IndexOutOfBounds,
  InvalidEncoding(String),
  InvalidListSize,
}
pub struct StatusList2021(Box<[u8]>);

impl StatusList2021 {
  pub closed spec fn view(&self) -> Seq<u8> { self.0@ }
  /// number of entries of the abstract bit vector
  pub open spec fn nbits(&self) -> int { (self@.len() * 8) as int }
  /// value of entry i
  pub open spec fn entry(&self, i: int) -> bool { bit(self@[i / 8], i % 8) }
  /// representation assumption: the byte store is small enough for `len()` not to overflow
  pub open spec fn fits(&self) -> bool { self@.len() * 8 <= usize::MAX }

  pub fn new(num_entries: usize) -> (r: Result<Self, StatusListError>)
    ensures
      num_entries < 131072 ==> r == Err::<StatusList2021, StatusListError>(StatusListError::InvalidListSize),
      num_entries >= 131072 ==> r is Ok
        && r->Ok_0.nbits() >= num_entries && r->Ok_0.nbits() < num_entries + 8 && r->Ok_0.nbits() % 8 == 0
        && (forall|j: int| 0 <= j < r->Ok_0.nbits() ==> !r->Ok_0.entry(j)),
  {
    if num_entries < MINIMUM_LIST_SIZE {
      return Err(StatusListError::InvalidListSize);
    }

    let size = num_entries / 8 + (num_entries % 8 != 0) as usize;
    let store = vec![0; size];

    Ok(StatusList2021(store.into_boxed_slice()))
  }
  pub fn new__canary(num_entries: usize) -> (r: Result<Self, StatusListError>)
    ensures
      num_entries < 131072 ==> r == Err::<StatusList2021, StatusListError>(StatusListError::InvalidListSize),
      num_entries >= 131072 ==> r is Ok
        && r->Ok_0.nbits() >= num_entries && r->Ok_0.nbits() < num_entries + 8 && r->Ok_0.nbits() % 8 == 0
        && (forall|j: int| 0 <= j < r->Ok_0.nbits() ==> !r->Ok_0.entry(j)),
      false,
  {
    if num_entries < MINIMUM_LIST_SIZE {
      return Err(StatusListError::InvalidListSize);
    }

    let size = num_entries / 8 + (num_entries % 8 != 0) as usize;
    let store = vec![0; size];

    Ok(StatusList2021(store.into_boxed_slice()))
  }

  pub const fn len(&self) -> (r: usize)
    requires self.fits(),
    ensures r == self.nbits(),
  {
    self.0.len() * 8
  }
  pub const fn len__canary(&self) -> (r: usize)
    requires self.fits(),
    ensures r == self.nbits(),
      false,
  {
    self.0.len() * 8
  }

  const fn get_unchecked(&self, index: usize) -> (r: bool)
    requires index < self.nbits(),
    ensures r == self.entry(index as int),
  {
    let (i, offset) = Self::entry_index_to_store_index(index);
    self.0[i] & (0b1000_0000 >> offset) != 0
  }
  const fn get_unchecked__canary(&self, index: usize) -> (r: bool)
    requires index < self.nbits(),
    ensures r == self.entry(index as int),
      false,
  {
    let (i, offset) = Self::entry_index_to_store_index(index);
    self.0[i] & (0b1000_0000 >> offset) != 0
  }

  fn set_unchecked(&mut self, index: usize, value: bool)
    requires index < old(self).nbits(),
    ensures
      final(self)@.len() == old(self)@.len(),
      final(self).entry(index as int) == value,
      forall|j: int| 0 <= j < old(self).nbits() && j != index ==> final(self).entry(j) == old(self).entry(j),
  {
    let (i, offset) = Self::entry_index_to_store_index(index);
    if value {
      self.0[i] |= 0b1000_0000 >> offset
    } else {
      self.0[i] &= !(0b1000_0000 >> offset)
    }
  }
  fn set_unchecked__canary(&mut self, index: usize, value: bool)
    requires index < old(self).nbits(),
    ensures
      final(self)@.len() == old(self)@.len(),
      final(self).entry(index as int) == value,
      forall|j: int| 0 <= j < old(self).nbits() && j != index ==> final(self).entry(j) == old(self).entry(j),
      false,
  {
    let (i, offset) = Self::entry_index_to_store_index(index);
    if value {
      self.0[i] |= 0b1000_0000 >> offset
    } else {
      self.0[i] &= !(0b1000_0000 >> offset)
    }
  }

  pub fn get(&self, index: usize) -> (r: Result<bool, StatusListError>)
    requires self.fits(),
    ensures
      index < self.nbits() ==> r == Ok::<bool, StatusListError>(self.entry(index as int)),
      index >= self.nbits() ==> r == Err::<bool, StatusListError>(StatusListError::IndexOutOfBounds),
  {
    (index < self.len())
      .then(|| -> (x: bool) requires index < self.nbits() ensures x == self.entry(index as int) { self.get_unchecked(index) })
      .ok_or(StatusListError::IndexOutOfBounds)
  }
  pub fn get__canary(&self, index: usize) -> (r: Result<bool, StatusListError>)
    requires self.fits(),
    ensures
      index < self.nbits() ==> r == Ok::<bool, StatusListError>(self.entry(index as int)),
      index >= self.nbits() ==> r == Err::<bool, StatusListError>(StatusListError::IndexOutOfBounds),
      false,
  {
    (index < self.len())
      .then(|| -> (x: bool) requires index < self.nbits() ensures x == self.entry(index as int) { self.get_unchecked(index) })
      .ok_or(StatusListError::IndexOutOfBounds)
  }

  pub fn set(&mut self, index: usize, value: bool) -> (r: Result<(), StatusListError>)
    requires old(self).fits(),
    ensures
      final(self)@.len() == old(self)@.len(),
      index < old(self).nbits() ==> r is Ok
        && final(self).entry(index as int) == value
        && (forall|j: int| 0 <= j < old(self).nbits() && j != index ==> final(self).entry(j) == old(self).entry(j)),
      index >= old(self).nbits() ==> r == Err::<(), StatusListError>(StatusListError::IndexOutOfBounds)
        && final(self)@ == old(self)@,
  {
    if index < self.len() {
      self.set_unchecked(index, value);
      Ok(())
    } else {
      Err(StatusListError::IndexOutOfBounds)
    }
  }
  pub fn set__canary(&mut self, index: usize, value: bool) -> (r: Result<(), StatusListError>)
    requires old(self).fits(),
    ensures
      final(self)@.len() == old(self)@.len(),
      index < old(self).nbits() ==> r is Ok
        && final(self).entry(index as int) == value
        && (forall|j: int| 0 <= j < old(self).nbits() && j != index ==> final(self).entry(j) == old(self).entry(j)),
      index >= old(self).nbits() ==> r == Err::<(), StatusListError>(StatusListError::IndexOutOfBounds)
        && final(self)@ == old(self)@,
      false,
  {
    if index < self.len() {
      self.set_unchecked(index, value);
      Ok(())
    } else {
      Err(StatusListError::IndexOutOfBounds)
    }
  }

  const fn entry_index_to_store_index(index: usize) -> (r: (usize, usize))
    ensures r.0 == index / 8, r.1 == index % 8,
  {
    (index / 8, index % 8)
  }
  const fn entry_index_to_store_index__canary(index: usize) -> (r: (usize, usize))
    ensures r.0 == index / 8, r.1 == index % 8,
      false,
  {
    (index / 8, index % 8)
  }
}
} // mod status_list

} // verus!
fn main() {}

