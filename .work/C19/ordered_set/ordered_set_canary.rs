// Unit `ordered_set` — serves C19 (+ C05).
#![feature(allocator_api)]
use vstd::prelude::*;
use vstd::std_specs::iter::IteratorSpec;
verus! {

// ---- shared std prelude (assumed specifications of core/alloc items vstd does not cover) ----
pub mod vxstd {
use vstd::prelude::*;
/// Rust's `?` converts the error with `From::from`; vstd leaves `spec_from` uninterpreted.
pub broadcast proof fn axiom_question_mark_uses_from<F: From<E>, E>(e: E, r: F)
  ensures #[trigger] vstd::std_specs::control_flow::spec_from::<F, E>(e, r) ==> call_ensures(<F as From<E>>::from, (e,), r)
{ admit(); }
/// `str` values are determined by their characters (Verus compares string patterns by value, exec `==` by view).
pub broadcast proof fn axiom_str_ext(a: &str, b: &str)
  ensures #![trigger a@, b@] (a@ == b@) ==> a == b
{ admit(); }
/// the items an `IntoIterator` yields (uninterpreted; pinned down for slices below)
pub uninterp spec fn iter_items<T, I>(i: I) -> Seq<T>;
/// iterating a `&[T]` yields its elements in order
pub broadcast proof fn axiom_iter_items_slice<'a, T>(s: &'a [T])
  ensures #[trigger] iter_items::<T, &'a [T]>(s) == s@
{ admit(); }
/// `String == str` (also through references) compares the characters.
pub broadcast proof fn axiom_string_str_eq(a: &String, b: &str)
  ensures #![trigger a@, b@] <String as vstd::std_specs::cmp::PartialEqSpec<str>>::obeys_eq_spec()
    && <String as vstd::std_specs::cmp::PartialEqSpec<str>>::eq_spec(a, b) == (a@ == b@)
{ admit(); }
}
/// ASSUMED std spec: Option::or_else
pub assume_specification<T, F: FnOnce() -> Option<T>>[ Option::<T>::or_else ](o: Option<T>, f: F) -> (r: Option<T>)
  requires o is None ==> f.requires(()),
  ensures o is Some ==> r == o, o is None ==> f.ensures((), r);
/// ASSUMED std spec: Vec::extend from an iterator of references appends the items
pub assume_specification<'a, T: Copy + 'a, A: core::alloc::Allocator, I: IntoIterator<Item = &'a T>>[ <Vec<T, A> as Extend<&'a T>>::extend ](v: &mut Vec<T, A>, i: I)
  ensures final(v)@ == old(v)@ + vxstd::iter_items::<T, I>(i);
/// ASSUMED std spec: Option<Result<T,E>>::transpose
pub assume_specification<T, E>[ Option::<Result<T, E>>::transpose ](o: Option<Result<T, E>>) -> (r: Result<Option<T>, E>)
  ensures
    o is None ==> r == Ok::<Option<T>, E>(None),
    o is Some && o->Some_0 is Ok ==> r == Ok::<Option<T>, E>(Some(o->Some_0->Ok_0)),
    o is Some && o->Some_0 is Err ==> r == Err::<Option<T>, E>(o->Some_0->Err_0);
/// ASSUMED std spec: Vec<T> -> Box<[T]> keeps the elements
pub assume_specification<T, A: core::alloc::Allocator>[ <Box<[T], A> as From<Vec<T, A>>>::from ](v: Vec<T, A>) -> (r: Box<[T], A>)
  ensures r@ == v@;


pub mod serde_json { use vstd::prelude::*; #[verifier::external_body] pub struct Error { _p: () } }
pub mod multibase { use vstd::prelude::*; #[verifier::external_body] pub struct Error { _p: () } }
pub mod url { use vstd::prelude::*; #[verifier::external_body] pub struct ParseError { _p: () } }
pub mod time { pub mod error { use vstd::prelude::*; #[verifier::external_body] pub struct Error { _p: () } } }
#[verifier::external_body] pub struct Base { _p: () }
pub type Result<T, E = Error> = ::core::result::Result<T, E>;
pub enum Error {
  EncodeJSON( serde_json::Error),
  DecodeJSON( serde_json::Error),
  DecodeBase(Base,  multibase::Error),
  DecodeMultibase( multibase::Error),
  InvalidUrl( url::ParseError),
  InvalidTimestamp( time::error::Error),
  OneOrSetEmpty,
  OrderedSetDuplicate,
}
impl core::fmt::Debug for Error { #[verifier::external_body] fn fmt(&self, f: &mut core::fmt::Formatter<'_>) -> core::fmt::Result { unimplemented!() } }

pub mod kax {
use vstd::prelude::*;
/// The key trait, with a ghost view of the key. ASSUMED of implementors: `key()` returns that key.
pub trait KeyComparable {
  type Key: PartialEq + ?Sized;
  spec fn key_spec(&self) -> &Self::Key;
  fn key(&self) -> (r: &Self::Key) ensures r == self.key_spec();
}
/// ASSUMED of every key type used with KeyComparable: `a == b` on keys decides spec equality of the ghost keys
pub broadcast proof fn axiom_key_eq<T: KeyComparable + ?Sized, U: KeyComparable<Key = T::Key> + ?Sized>(a: &T, b: &U)
  ensures #![trigger a.key_spec(), b.key_spec()]
    <T::Key as vstd::std_specs::cmp::PartialEqSpec>::obeys_eq_spec()
    && <T::Key as vstd::std_specs::cmp::PartialEqSpec>::eq_spec(a.key_spec(), b.key_spec()) == (a.key_spec() == b.key_spec())
{ admit(); }
}
pub use kax::KeyComparable;
broadcast use kax::axiom_key_eq;

pub struct OrderedSet<T>(pub Vec<T>);

pub open spec fn has_key<T: KeyComparable>(s: Seq<T>, k: &T::Key) -> bool { exists|i: int| 0 <= i < s.len() && #[trigger] s[i].key_spec() == k }
/// representation invariant: keys pairwise distinct
pub open spec fn wf<T: KeyComparable>(s: Seq<T>) -> bool {
  forall|i: int, j: int| 0 <= i < j < s.len() ==> #[trigger] s[i].key_spec() != #[trigger] s[j].key_spec()
}

/// the elements of `t` whose mask bit is set, order kept (abstract model of `drain(..).filter(..).collect()`)
pub open spec fn mask_keep<T>(t: Seq<T>, m: Seq<bool>) -> Seq<T>
  decreases t.len()
{
  if t.len() == 0 || m.len() != t.len() { Seq::<T>::empty() }
  else if !m[0] { mask_keep(t.drop_first(), m.drop_first()) }
  else { seq![t[0]] + mask_keep(t.drop_first(), m.drop_first()) }
}
pub proof fn lemma_mask_keep_all<T>(t: Seq<T>, m: Seq<bool>)
  requires m.len() == t.len(), forall|i: int| 0 <= i < m.len() ==> #[trigger] m[i]
  ensures mask_keep(t, m) == t
  decreases t.len()
{
  if t.len() > 0 {
    assert forall|i: int| 0 <= i < m.drop_first().len() implies #[trigger] m.drop_first()[i] by { assert(m.drop_first()[i] == m[i + 1]); }
    lemma_mask_keep_all(t.drop_first(), m.drop_first());
    assert(seq![t[0]] + t.drop_first() =~= t);
  }
}
/// every element kept is some t[j] with m[j] (witness returned)
pub proof fn lemma_mask_keep_from<T>(t: Seq<T>, m: Seq<bool>, k: int) -> (j: int)
  requires m.len() == t.len(), 0 <= k < mask_keep(t, m).len()
  ensures 0 <= j < t.len(), m[j], t[j] == mask_keep(t, m)[k], j >= k
  decreases t.len()
{
  let d = t.drop_first(); let md = m.drop_first();
  if !m[0] {
    let j = lemma_mask_keep_from(d, md, k);
    j + 1
  } else if k == 0 {
    0
  } else {
    assert(mask_keep(t, m) == seq![t[0]] + mask_keep(d, md));
    let j = lemma_mask_keep_from(d, md, k - 1);
    j + 1
  }
}
pub proof fn lemma_mask_keep_wf<T: KeyComparable>(t: Seq<T>, m: Seq<bool>)
  requires wf(t), m.len() == t.len()
  ensures wf(mask_keep(t, m))
  decreases t.len()
{
  if t.len() > 0 {
    let d = t.drop_first(); let md = m.drop_first();
    assert(wf(d)) by { assert forall|i: int, j: int| 0 <= i < j < d.len() implies #[trigger] d[i].key_spec() != #[trigger] d[j].key_spec() by { assert(d[i] == t[i + 1] && d[j] == t[j + 1]); } }
    lemma_mask_keep_wf(d, md);
    let r = mask_keep(d, md);
    if m[0] {
      let out = mask_keep(t, m);
      assert(out == seq![t[0]] + r);
      assert forall|i: int, j: int| 0 <= i < j < out.len() implies #[trigger] out[i].key_spec() != #[trigger] out[j].key_spec() by {
        if i == 0 {
          assert(out[j] == r[j - 1]);
          let mm = lemma_mask_keep_from(d, md, j - 1);
          assert(t[mm + 1] == out[j] && t[0] == out[0]);
        } else {
          assert(out[i] == r[i - 1] && out[j] == r[j - 1]);
        }
      }
    }
  }
}

impl<T> OrderedSet<T> {
  pub const fn new() -> (r: Self)
    ensures r.0@.len() == 0,
  {
    Self(Vec::new())
  }
  pub const fn new__canary() -> (r: Self)
    ensures r.0@.len() == 0,
      false,
  {
    Self(Vec::new())
  }
  pub fn with_capacity(capacity: usize) -> (r: Self)
    ensures r.0@.len() == 0,
  {
    Self(Vec::with_capacity(capacity))
  }
  pub fn with_capacity__canary(capacity: usize) -> (r: Self)
    ensures r.0@.len() == 0,
      false,
  {
    Self(Vec::with_capacity(capacity))
  }
  pub fn len(&self) -> (r: usize)
    ensures r == self.0@.len(),
  {
    self.0.len()
  }
  pub fn len__canary(&self) -> (r: usize)
    ensures r == self.0@.len(),
      false,
  {
    self.0.len()
  }
  pub fn is_empty(&self) -> (r: bool)
    ensures r == (self.0@.len() == 0),
  {
    self.0.is_empty()
  }
  pub fn is_empty__canary(&self) -> (r: bool)
    ensures r == (self.0@.len() == 0),
      false,
  {
    self.0.is_empty()
  }
  pub fn into_vec(self) -> (r: Vec<T>)
    ensures r@ == self.0@,
  {
    self.0
  }
  pub fn into_vec__canary(self) -> (r: Vec<T>)
    ensures r@ == self.0@,
      false,
  {
    self.0
  }
  pub fn as_slice(&self) -> (r: &[T])
    ensures r@ == self.0@,
  {
    &self.0
  }
  pub fn as_slice__canary(&self) -> (r: &[T])
    ensures r@ == self.0@,
      false,
  {
    &self.0
  }

  pub fn contains<U>(&self, item: &U) -> (r: bool) where
  T: KeyComparable,
  U: KeyComparable<Key = T::Key> + ?Sized,
    ensures r == has_key(self.0@, item.key_spec()),
  {
    ({ let it_0 = self.0.iter(); proof { assert(it_0.remaining().len() == self.0@.len()); assert(forall|i: int| #![trigger it_0.remaining()[i]] #![trigger self.0@[i]] 0 <= i < self.0@.len() ==> *it_0.remaining()[i] == self.0@[i]); } it_0 }).any(|other: &T| -> (b: bool) ensures b == (other.key_spec() == item.key_spec()) { other.key() == item.key() })
  }
  pub fn contains__canary<U>(&self, item: &U) -> (r: bool) where
  T: KeyComparable,
  U: KeyComparable<Key = T::Key> + ?Sized,
    ensures r == has_key(self.0@, item.key_spec()),
      false,
  {
    ({ let it_0 = self.0.iter(); proof { assert(it_0.remaining().len() == self.0@.len()); assert(forall|i: int| #![trigger it_0.remaining()[i]] #![trigger self.0@[i]] 0 <= i < self.0@.len() ==> *it_0.remaining()[i] == self.0@[i]); } it_0 }).any(|other: &T| -> (b: bool) ensures b == (other.key_spec() == item.key_spec()) { other.key() == item.key() })
  }

  pub fn append(&mut self, item: T) -> (r: bool) where
  T: KeyComparable,
    requires wf(old(self).0@),
    ensures
      r == !has_key(old(self).0@, item.key_spec()),
      final(self).0@ == (if r { old(self).0@.push(item) } else { old(self).0@ }),
      wf(final(self).0@),
  {
    if self.contains(&item) {
      false
    } else {
      self.0.push(item);
      true
    }
  }
  pub fn append__canary(&mut self, item: T) -> (r: bool) where
  T: KeyComparable,
    requires wf(old(self).0@),
    ensures
      r == !has_key(old(self).0@, item.key_spec()),
      final(self).0@ == (if r { old(self).0@.push(item) } else { old(self).0@ }),
      wf(final(self).0@),
      false,
  {
    if self.contains(&item) {
      false
    } else {
      self.0.push(item);
      true
    }
  }

  pub fn prepend(&mut self, item: T) -> (r: bool) where
  T: KeyComparable,
    requires wf(old(self).0@),
    ensures
      r == !has_key(old(self).0@, item.key_spec()),
      final(self).0@ == (if r { seq![item] + old(self).0@ } else { old(self).0@ }),
      wf(final(self).0@),
  {
    if self.contains(&item) {
      false
    } else {
      self.0.insert(0, item);
      true
    }
  }
  pub fn prepend__canary(&mut self, item: T) -> (r: bool) where
  T: KeyComparable,
    requires wf(old(self).0@),
    ensures
      r == !has_key(old(self).0@, item.key_spec()),
      final(self).0@ == (if r { seq![item] + old(self).0@ } else { old(self).0@ }),
      wf(final(self).0@),
      false,
  {
    if self.contains(&item) {
      false
    } else {
      self.0.insert(0, item);
      true
    }
  }
}

/// first occurrences only, order kept (abstract model of the collecting constructor)
pub open spec fn dedup_first<T: KeyComparable>(s: Seq<T>) -> Seq<T>
  decreases s.len()
{
  if s.len() == 0 { Seq::<T>::empty() }
  else {
    let init = dedup_first(s.drop_last());
    if has_key(init, s.last().key_spec()) { init } else { init.push(s.last()) }
  }
}

impl<T: KeyComparable> OrderedSet<T> {
  /// ASSUMED contract of `FromIterator::from_iter` (generic IntoIterator: outside the verifier's reach)
  #[verifier::external_body]
  pub fn from_iter<I: IntoIterator<Item = T>>(iter: I) -> (r: Self)
    ensures wf(r.0@), r.0@ == dedup_first(vxstd::iter_items::<T, I>(iter))
  { unimplemented!() }
}

// the std-level `TryFrom` spec hook is not used (the contract is stated on the function itself)
impl<T: KeyComparable> vstd::std_specs::convert::TryFromSpecImpl<Vec<T>> for OrderedSet<T> {
  open spec fn obeys_try_from_spec() -> bool { false }
  open spec fn try_from_spec(v: Vec<T>) -> core::result::Result<Self, Error> { arbitrary() }
}
impl<T> TryFrom<Vec<T>> for OrderedSet<T> where T: KeyComparable {
  type Error = Error;
  fn try_from(other: Vec<T>) -> (r: Result<Self, Self::Error>)
    ensures
      // building from a list with duplicate keys is rejected; otherwise the list is kept as is
      r is Ok <==> wf(other@),
      r is Ok ==> r->Ok_0.0@ == other@,
  {
    let mut this: Self = Self::with_capacity(other.len());

    for item in it: other 
invariant wf(this.0@), this.0@ == other@.take(it.index@ as int), it.index@ <= other@.len(),
{
      if !this.append(item) {
        return Err(Error::OrderedSetDuplicate);
      }
    }

     proof { assert(other@.take(other@.len() as int) =~= other@); } Ok(this)
  }
}

// ------------------------------------------------ OneOrSet ------------------------------------------------
pub struct OneOrSet<T>(pub OneOrSetInner<T>)
where
  T: KeyComparable;
pub enum OneOrSetInner<T>
where
  T: KeyComparable,
{
  One(T),
  Set(OrderedSet<T>),
}

pub open spec fn oos_view<T: KeyComparable>(x: &OneOrSet<T>) -> Seq<T> {
  match x.0 { OneOrSetInner::One(t) => seq![t], OneOrSetInner::Set(s) => s.0@ }
}
/// what the constructors guarantee: never empty, keys unique, a singleton is stored as the bare value
pub open spec fn oos_canonical<T: KeyComparable>(x: &OneOrSet<T>) -> bool {
  match x.0 { OneOrSetInner::One(_) => true, OneOrSetInner::Set(s) => s.0@.len() >= 2 && wf(s.0@) }
}

impl<T> OneOrSet<T> where T: KeyComparable {
  pub fn new_one(item: T) -> (r: Self)
    ensures oos_view(&r) == seq![item], r.0 is One, oos_canonical(&r),
  {
    Self(OneOrSetInner::One(item))
  }
  pub fn new_one__canary(item: T) -> (r: Self)
    ensures oos_view(&r) == seq![item], r.0 is One, oos_canonical(&r),
      false,
  {
    Self(OneOrSetInner::One(item))
  }
  pub fn new_set(set: OrderedSet<T>) -> (r: Result<Self>)
    ensures
      r is Ok <==> set.0@.len() > 0,
      r is Ok ==> oos_view(&r->Ok_0) == set.0@ && (wf(set.0@) ==> oos_canonical(&r->Ok_0)) && (r->Ok_0.0 is One <==> set.0@.len() == 1),
  {
    if set.is_empty() {
      return Err(Error::OneOrSetEmpty);
    }
    if set.len() == 1 {
      Ok(Self::new_one(
        set.into_vec().pop().expect("infallible OneOrSet new_set"),
      ))
    } else {
      Ok(Self(OneOrSetInner::Set(set)))
    }
  }
  pub fn new_set__canary(set: OrderedSet<T>) -> (r: Result<Self>)
    ensures
      r is Ok <==> set.0@.len() > 0,
      r is Ok ==> oos_view(&r->Ok_0) == set.0@ && (wf(set.0@) ==> oos_canonical(&r->Ok_0)) && (r->Ok_0.0 is One <==> set.0@.len() == 1),
      false,
  {
    if set.is_empty() {
      return Err(Error::OneOrSetEmpty);
    }
    if set.len() == 1 {
      Ok(Self::new_one(
        set.into_vec().pop().expect("infallible OneOrSet new_set"),
      ))
    } else {
      Ok(Self(OneOrSetInner::Set(set)))
    }
  }
  pub fn len(&self) -> (r: usize)
    ensures r == oos_view(self).len(),
  {
    match &self.0 {
      OneOrSetInner::One(_) => 1,
      OneOrSetInner::Set(inner) => inner.len(),
    }
  }
  pub fn len__canary(&self) -> (r: usize)
    ensures r == oos_view(self).len(),
      false,
  {
    match &self.0 {
      OneOrSetInner::One(_) => 1,
      OneOrSetInner::Set(inner) => inner.len(),
    }
  }
  pub fn contains<U>(&self, item: &U) -> (r: bool) where
  T: KeyComparable,
  U: KeyComparable<Key = T::Key> + ?Sized,
    ensures r == has_key(oos_view(self), item.key_spec()),
  { proof { if self.0 is One { assert(oos_view(self)[0] == self.0->One_0); } } 
    match &self.0 {
      OneOrSetInner::One(inner) => inner.key() == item.key(),
      OneOrSetInner::Set(inner) => inner.contains(item),
    }
  }
  pub fn contains__canary<U>(&self, item: &U) -> (r: bool) where
  T: KeyComparable,
  U: KeyComparable<Key = T::Key> + ?Sized,
    ensures r == has_key(oos_view(self), item.key_spec()),
      false,
  { proof { if self.0 is One { assert(oos_view(self)[0] == self.0->One_0); } } 
    match &self.0 {
      OneOrSetInner::One(inner) => inner.key() == item.key(),
      OneOrSetInner::Set(inner) => inner.contains(item),
    }
  }
  pub fn into_vec(self) -> (r: Vec<T>)
    ensures r@ == oos_view(&self),
  {
    match self.0 {
      OneOrSetInner::One(inner) => vec![inner],
      OneOrSetInner::Set(inner) => inner.into_vec(),
    }
  }
  pub fn into_vec__canary(self) -> (r: Vec<T>)
    ensures r@ == oos_view(&self),
      false,
  {
    match self.0 {
      OneOrSetInner::One(inner) => vec![inner],
      OneOrSetInner::Set(inner) => inner.into_vec(),
    }
  }
}

impl<T: KeyComparable> vstd::std_specs::convert::TryFromSpecImpl<Vec<T>> for OneOrSet<T> {
  open spec fn obeys_try_from_spec() -> bool { false }
  open spec fn try_from_spec(v: Vec<T>) -> core::result::Result<Self, Error> { arbitrary() }
}
impl<T> TryFrom<Vec<T>> for OneOrSet<T> where T: KeyComparable {
  type Error = Error;
  fn try_from(other: Vec<T>) -> (r: std::result::Result<Self, Self::Error>)
    ensures
      // duplicate keys and the empty list are rejected
      r is Ok <==> (wf(other@) && other@.len() > 0),
      r is Ok ==> oos_view(&r->Ok_0) == other@ && oos_canonical(&r->Ok_0) && (r->Ok_0.0 is One <==> other@.len() == 1),
  {
    let set: OrderedSet<T> = OrderedSet::try_from(other)?;
    OneOrSet::new_set(set)
  }
}

impl<T: KeyComparable> vstd::std_specs::convert::TryFromSpecImpl<OrderedSet<T>> for OneOrSet<T> {
  open spec fn obeys_try_from_spec() -> bool { false }
  open spec fn try_from_spec(v: OrderedSet<T>) -> core::result::Result<Self, Error> { arbitrary() }
}
impl<T> TryFrom<OrderedSet<T>> for OneOrSet<T> where T: KeyComparable {
  type Error = Error;
  fn try_from(other: OrderedSet<T>) -> (r: std::result::Result<Self, Self::Error>)
    ensures
      r is Ok <==> other.0@.len() > 0,
      r is Ok ==> oos_view(&r->Ok_0) == other.0@ && (wf(other.0@) ==> oos_canonical(&r->Ok_0)) && (r->Ok_0.0 is One <==> other.0@.len() == 1),
  {
    if other.is_empty() {
      return Err(Error::OneOrSetEmpty);
    }
    Ok(Self(OneOrSetInner::Set(other)))
  }
}

// ------------------------------------------------ OneOrMany ------------------------------------------------
pub enum OneOrMany<T> {
  One(T),
  Many(Vec<T>),
}
pub open spec fn oom_view<T>(x: &OneOrMany<T>) -> Seq<T> { match x { OneOrMany::One(t) => seq![*t], OneOrMany::Many(v) => v@ } }

impl<T> OneOrMany<T> {
  pub fn len(&self) -> (r: usize)
    ensures r == oom_view(self).len(),
  {
    match self {
      Self::One(_) => 1,
      Self::Many(inner) => inner.len(),
    }
  }
  pub fn len__canary(&self) -> (r: usize)
    ensures r == oom_view(self).len(),
      false,
  {
    match self {
      Self::One(_) => 1,
      Self::Many(inner) => inner.len(),
    }
  }
  pub fn is_empty(&self) -> (r: bool)
    ensures r == (oom_view(self).len() == 0),
  {
    match self {
      Self::One(_) => false,
      Self::Many(inner) => inner.is_empty(),
    }
  }
  pub fn is_empty__canary(&self) -> (r: bool)
    ensures r == (oom_view(self).len() == 0),
      false,
  {
    match self {
      Self::One(_) => false,
      Self::Many(inner) => inner.is_empty(),
    }
  }
  pub fn get(&self, index: usize) -> (r: Option<&T>)
    ensures r is Some <==> index < oom_view(self).len(), r is Some ==> *r->Some_0 == oom_view(self)[index as int],
  {
    match self {
      Self::One(inner) if index == 0 => Some(inner),
      Self::One(_) => None,
      Self::Many(inner) => inner.get(index),
    }
  }
  pub fn get__canary(&self, index: usize) -> (r: Option<&T>)
    ensures r is Some <==> index < oom_view(self).len(), r is Some ==> *r->Some_0 == oom_view(self)[index as int],
      false,
  {
    match self {
      Self::One(inner) if index == 0 => Some(inner),
      Self::One(_) => None,
      Self::Many(inner) => inner.get(index),
    }
  }
  pub fn into_vec(self) -> (r: Vec<T>)
    ensures r@ == oom_view(&self),
  {
    match self {
      Self::One(inner) => vec![inner],
      Self::Many(inner) => inner,
    }
  }
  pub fn into_vec__canary(self) -> (r: Vec<T>)
    ensures r@ == oom_view(&self),
      false,
  {
    match self {
      Self::One(inner) => vec![inner],
      Self::Many(inner) => inner,
    }
  }
}
impl<T> vstd::std_specs::convert::FromSpecImpl<Vec<T>> for OneOrMany<T> {
  open spec fn obeys_from_spec() -> bool { false }
  open spec fn from_spec(v: Vec<T>) -> Self { arbitrary() }
}
impl<T> From<Vec<T>> for OneOrMany<T> {
  fn from(other: Vec<T>) -> (r: Self)
    ensures oom_view(&r) == other@, r is One <==> other@.len() == 1,
  { let mut other = other; 
    if other.len() == 1 {
      Self::One(other.pop().expect("infallible"))
    } else {
      Self::Many(other)
    }
  }
}

// ------------------------------------ update / replace / remove (over the ASSUMED contracts of change and remove) ------------------------------------
/// (ghost) where `change` found its first match and which later elements it kept — functions of its inputs
pub uninterp spec fn ch_idx<T, F>(s: Seq<T>, data: T, f: F) -> int;
pub uninterp spec fn ch_keep<T, F>(s: Seq<T>, data: T, f: F) -> Seq<bool>;
impl<T> OrderedSet<T> {
  /// ASSUMED contract of `OrderedSet::change` (position + drain(..).filter(..).collect() + extend + insert:
  /// iterator adapter types are outside the verifier's reach; checked by a bounded Kani harness in the thorough tier).
  #[verifier::external_body]
  fn change<F>(&mut self, data: T, f: F) -> (r: bool) where F: Fn(&T, &T) -> bool
    requires forall|a: &T, b: &T| f.requires((a, b)),
    ensures ({
      let s = old(self).0@;
      let idx = ch_idx(s, data, f);
      let keep = ch_keep(s, data, f);
      // not found: f said "no" on every element, nothing changes
      &&& !r ==> final(self).0@ == s && forall|i: int| 0 <= i < s.len() ==> f.ensures((&#[trigger] s[i], &data), false)
      // found at the first index where f says "yes": data is placed there, later elements on which f says "yes" are dropped
      &&& r ==> 0 <= idx < s.len() && f.ensures((&s[idx], &data), true)
                  && (forall|j: int| 0 <= j < idx ==> f.ensures((&#[trigger] s[j], &data), false))
                  && keep.len() == s.len() - idx - 1
                  && (forall|k: int| 0 <= k < keep.len() ==> f.ensures((&s[idx + 1 + k], &data), !#[trigger] keep[k]))
                  && final(self).0@ == s.take(idx).push(data) + mask_keep(s.skip(idx + 1), keep)
    })
  { unimplemented!() }

  /// ASSUMED contract of `OrderedSet::remove` (enumerate().find(..).map(..)): first (= only) match removed, order kept.
  #[verifier::external_body]
  pub fn remove<U>(&mut self, item: &U) -> (r: Option<T>) where
  T: KeyComparable,
  U: KeyComparable<Key = T::Key>,
    ensures ({
      let s = old(self).0@;
      &&& r is Some <==> has_key(s, item.key_spec())
      &&& r is None ==> final(self).0@ == s
      &&& r is Some ==> exists|idx: int| 0 <= idx < s.len() && (#[trigger] s[idx]).key_spec() == item.key_spec()
            && (forall|j: int| 0 <= j < idx ==> (#[trigger] s[j]).key_spec() != item.key_spec())
            && r->Some_0 == s[idx] && final(self).0@ == s.remove(idx)
    })
  { unimplemented!() }

  pub fn replace<U>(&mut self, current: &U, update: T) -> (r: bool) where
  T: KeyComparable,
  U: KeyComparable<Key = T::Key>,
    requires wf(old(self).0@),
    ensures
      r == (has_key(old(self).0@, current.key_spec()) || has_key(old(self).0@, update.key_spec())),
      !r ==> final(self).0@ == old(self).0@,
      // the update lands on the first element carrying either key; later elements carrying either key are dropped; the rest keep their order
      r ==> exists|idx: int, keep: Seq<bool>| #![trigger old(self).0@[idx], keep.len()] 0 <= idx < old(self).0@.len()
              && (old(self).0@[idx].key_spec() == current.key_spec() || old(self).0@[idx].key_spec() == update.key_spec())
              && (forall|j: int| 0 <= j < idx ==> (#[trigger] old(self).0@[j]).key_spec() != current.key_spec() && old(self).0@[j].key_spec() != update.key_spec())
              && keep.len() == old(self).0@.len() - idx - 1
              && (forall|k: int| 0 <= k < keep.len() ==> #[trigger] keep[k] == !(old(self).0@[idx + 1 + k].key_spec() == current.key_spec() || old(self).0@[idx + 1 + k].key_spec() == update.key_spec()))
              && final(self).0@ == old(self).0@.take(idx).push(update) + mask_keep(old(self).0@.skip(idx + 1), keep),
      wf(final(self).0@),
  { let f_0 = |item: &T, update: &T| -> (b: bool) ensures b == (item.key_spec() == current.key_spec() || item.key_spec() == update.key_spec()) {
      item.key() == current.key() || item.key() == update.key()
    };  let ghost s0 = self.0@; let ghost u0 = update; let r__ = { 
    self.change(update, f_0)
   }; proof {
if r__ {
let idx = ch_idx(s0, u0, f_0); let keep = ch_keep(s0, u0, f_0);
let tail = s0.skip(idx + 1);
assert(wf(tail)) by { assert forall|i: int, j: int| 0 <= i < j < tail.len() implies #[trigger] tail[i].key_spec() != #[trigger] tail[j].key_spec() by { assert(tail[i] == s0[idx + 1 + i] && tail[j] == s0[idx + 1 + j]); } }
lemma_mask_keep_wf(tail, keep);
let kept = mask_keep(tail, keep);
let fin = self.0@;
assert forall|i: int, j: int| 0 <= i < j < fin.len() implies #[trigger] fin[i].key_spec() != #[trigger] fin[j].key_spec() by {
if j > idx {
let o = lemma_mask_keep_from(tail, keep, j - idx - 1);
assert(fin[j] == kept[j - idx - 1] && tail[o] == s0[idx + 1 + o] && keep[o]);
if i > idx { assert(fin[i] == kept[i - idx - 1]); } else if i == idx { } else { assert(fin[i] == s0[i]); }
} else { assert(fin[i] == s0[i]); }
}
assert(forall|k: int| 0 <= k < keep.len() ==> #[trigger] keep[k] == !(s0[idx + 1 + k].key_spec() == current.key_spec() || s0[idx + 1 + k].key_spec() == u0.key_spec()));
} else {
if has_key(s0, u0.key_spec()) { let i = choose|i: int| 0 <= i < s0.len() && #[trigger] s0[i].key_spec() == u0.key_spec(); assert(f_0.ensures((&s0[i], &u0), false)); }
if has_key(s0, current.key_spec()) { let i = choose|i: int| 0 <= i < s0.len() && #[trigger] s0[i].key_spec() == current.key_spec(); assert(f_0.ensures((&s0[i], &u0), false)); }
}
} r__ }
  pub fn replace__canary<U>(&mut self, current: &U, update: T) -> (r: bool) where
  T: KeyComparable,
  U: KeyComparable<Key = T::Key>,
    requires wf(old(self).0@),
    ensures
      r == (has_key(old(self).0@, current.key_spec()) || has_key(old(self).0@, update.key_spec())),
      !r ==> final(self).0@ == old(self).0@,
      // the update lands on the first element carrying either key; later elements carrying either key are dropped; the rest keep their order
      r ==> exists|idx: int, keep: Seq<bool>| #![trigger old(self).0@[idx], keep.len()] 0 <= idx < old(self).0@.len()
              && (old(self).0@[idx].key_spec() == current.key_spec() || old(self).0@[idx].key_spec() == update.key_spec())
              && (forall|j: int| 0 <= j < idx ==> (#[trigger] old(self).0@[j]).key_spec() != current.key_spec() && old(self).0@[j].key_spec() != update.key_spec())
              && keep.len() == old(self).0@.len() - idx - 1
              && (forall|k: int| 0 <= k < keep.len() ==> #[trigger] keep[k] == !(old(self).0@[idx + 1 + k].key_spec() == current.key_spec() || old(self).0@[idx + 1 + k].key_spec() == update.key_spec()))
              && final(self).0@ == old(self).0@.take(idx).push(update) + mask_keep(old(self).0@.skip(idx + 1), keep),
      wf(final(self).0@),
      false,
  { let f_0 = |item: &T, update: &T| -> (b: bool) ensures b == (item.key_spec() == current.key_spec() || item.key_spec() == update.key_spec()) {
      item.key() == current.key() || item.key() == update.key()
    };  let ghost s0 = self.0@; let ghost u0 = update; let r__ = { 
    self.change(update, f_0)
   }; proof {
if r__ {
let idx = ch_idx(s0, u0, f_0); let keep = ch_keep(s0, u0, f_0);
let tail = s0.skip(idx + 1);
assert(wf(tail)) by { assert forall|i: int, j: int| 0 <= i < j < tail.len() implies #[trigger] tail[i].key_spec() != #[trigger] tail[j].key_spec() by { assert(tail[i] == s0[idx + 1 + i] && tail[j] == s0[idx + 1 + j]); } }
lemma_mask_keep_wf(tail, keep);
let kept = mask_keep(tail, keep);
let fin = self.0@;
assert forall|i: int, j: int| 0 <= i < j < fin.len() implies #[trigger] fin[i].key_spec() != #[trigger] fin[j].key_spec() by {
if j > idx {
let o = lemma_mask_keep_from(tail, keep, j - idx - 1);
assert(fin[j] == kept[j - idx - 1] && tail[o] == s0[idx + 1 + o] && keep[o]);
if i > idx { assert(fin[i] == kept[i - idx - 1]); } else if i == idx { } else { assert(fin[i] == s0[i]); }
} else { assert(fin[i] == s0[i]); }
}
assert(forall|k: int| 0 <= k < keep.len() ==> #[trigger] keep[k] == !(s0[idx + 1 + k].key_spec() == current.key_spec() || s0[idx + 1 + k].key_spec() == u0.key_spec()));
} else {
if has_key(s0, u0.key_spec()) { let i = choose|i: int| 0 <= i < s0.len() && #[trigger] s0[i].key_spec() == u0.key_spec(); assert(f_0.ensures((&s0[i], &u0), false)); }
if has_key(s0, current.key_spec()) { let i = choose|i: int| 0 <= i < s0.len() && #[trigger] s0[i].key_spec() == current.key_spec(); assert(f_0.ensures((&s0[i], &u0), false)); }
}
} r__ }

  pub fn update(&mut self, update: T) -> (r: bool) where
  T: KeyComparable,
    requires wf(old(self).0@),
    ensures
      r == has_key(old(self).0@, update.key_spec()),
      !r ==> final(self).0@ == old(self).0@,
      r ==> exists|idx: int| 0 <= idx < old(self).0@.len() && (#[trigger] old(self).0@[idx]).key_spec() == update.key_spec()
              && final(self).0@ == old(self).0@.update(idx, update),
      wf(final(self).0@),
  { let f_0 = |item: &T, update: &T| -> (b: bool) ensures b == (item.key_spec() == update.key_spec()) { item.key() == update.key() };  let ghost s0 = self.0@; let ghost u0 = update; let r__ = { 
    self.change(update, f_0)
   }; proof {
if r__ {
let idx = ch_idx(s0, u0, f_0); let keep = ch_keep(s0, u0, f_0);
assert forall|k: int| 0 <= k < keep.len() implies #[trigger] keep[k] by { assert(s0[idx].key_spec() != s0[idx + 1 + k].key_spec()); }
lemma_mask_keep_all(s0.skip(idx + 1), keep);
assert(self.0@ =~= s0.update(idx, u0));
} else if has_key(s0, u0.key_spec()) {
let i = choose|i: int| 0 <= i < s0.len() && #[trigger] s0[i].key_spec() == u0.key_spec();
assert(f_0.ensures((&s0[i], &u0), false));
}
} r__ }
  pub fn update__canary(&mut self, update: T) -> (r: bool) where
  T: KeyComparable,
    requires wf(old(self).0@),
    ensures
      r == has_key(old(self).0@, update.key_spec()),
      !r ==> final(self).0@ == old(self).0@,
      r ==> exists|idx: int| 0 <= idx < old(self).0@.len() && (#[trigger] old(self).0@[idx]).key_spec() == update.key_spec()
              && final(self).0@ == old(self).0@.update(idx, update),
      wf(final(self).0@),
      false,
  { let f_0 = |item: &T, update: &T| -> (b: bool) ensures b == (item.key_spec() == update.key_spec()) { item.key() == update.key() };  let ghost s0 = self.0@; let ghost u0 = update; let r__ = { 
    self.change(update, f_0)
   }; proof {
if r__ {
let idx = ch_idx(s0, u0, f_0); let keep = ch_keep(s0, u0, f_0);
assert forall|k: int| 0 <= k < keep.len() implies #[trigger] keep[k] by { assert(s0[idx].key_spec() != s0[idx + 1 + k].key_spec()); }
lemma_mask_keep_all(s0.skip(idx + 1), keep);
assert(self.0@ =~= s0.update(idx, u0));
} else if has_key(s0, u0.key_spec()) {
let i = choose|i: int| 0 <= i < s0.len() && #[trigger] s0[i].key_spec() == u0.key_spec();
assert(f_0.ensures((&s0[i], &u0), false));
}
} r__ }
}

} // verus!
fn main() {}

